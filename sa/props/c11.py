"""C11 -- hostile peers cannot crash, wedge or bypass limits."""
from ..core import walk, show, const_of, last_field, truth_of, apath, is_null, AnalysisBroken, same_expr
from .. import guards as G
from ..hops import check_hop_loop, HOP_FUNCS
from . import c04

EXPLANATION = ("C11: on every receive path the wire-controlled length is validated (nni_msg_size_valid, receive limit) before "
               "the allocation it sizes; the SP handshake bytes are checked before a pipe is offered to the socket; every "
               "protocol parser tests the length before it reads or trims header words and drops only the offending pipe; "
               "accept loops re-arm on every non-terminal outcome and transports never report the terminal code NNG_ECLOSED "
               "for the failure of a single connection; websocket size limits sum over the list the frames are collected in."
               " Also: an endpoint stores the caller's accept aio before it calls the helper that serves it (R6); the udp DATA handler gets the datagram size minus the header (R8).")
EXPLANATION += ' Round 3: every protocol message pump (callbacks of aios armed with nni_pipe_recv / nni_msgq_aio_get) re-arms, closes or forwards after it consumed a message (R9); the udp DATA length is compared with the bytes that arrived (R10).'
EXPLANATION += ' Round 6: wire words stay unsigned until range-checked (R14); a sleep until a deadline is not computed from a deadline in the past (R15); the cool-down timer of an accept loop accepts again whenever it fires (R4).'

STREAM_RECV = [("tcptran_pipe_recv_cb", "transport/tcp/tcp.c"), ("ipc_pipe_recv_cb", "transport/ipc/ipc.c"),
               ("sfd_tran_pipe_recv_cb", "transport/socket/sockfd.c")]
NEGO = [("tcptran_pipe_nego_cb", "transport/tcp/tcp.c", "tcptran_ep_match"), ("ipc_pipe_nego_cb", "transport/ipc/ipc.c", "ipc_ep_match"),
        ("sfd_tran_pipe_nego_cb", "transport/socket/sockfd.c", "sfd_tran_ep_match")]


def is_rcvmax(n):
    return n is not None and n.get("k") == "mem" and n["f"].replace("_", "") == "rcvmax"


def is_hs_buf(n):
    return n is not None and n.get("k") == "mem" and n["f"].replace("_", "") in ("rxlen", "rxhead")


def rule_r1(ctx):
    r = ctx.rule("C11.R1", "T1", "size before allocation: in the stream transports' receive callbacks nni_msg_alloc of the "
                 "wire-announced length is dominated by nni_msg_size_valid(len) and cannot be reached when len > rcvmax with "
                 "rcvmax > 0; the same three facts hold in all siblings", floor=6)
    prog = ctx.prog
    for name, file in STREAM_RECV:
        f = prog.need(name, file)
        allocs = G.need_sites([s for s in f.calls("nni_msg_alloc")], "nni_msg_alloc", f)
        valid = G.cond_edges(f, c04.is_call("nni_msg_size_valid"), want_nonzero=True)
        # len > rcvmax and rcvmax > 0 in any spelling (operands swapped, negated, limit held in a temporary)
        big = G.rel_edges(f, lambda n: const_of(n) is None and not is_rcvmax(n), is_rcvmax, ">")
        lim = G.nz_edges(f, is_rcvmax)
        for s in allocs:
            pos = (s.b, s.i)
            if valid and G.dominated(f, pos, valid):
                r.ob(f, "alloc dominated by nni_msg_size_valid(len)")
            else:
                ctx.fail(r, f, "alloc without nni_msg_size_valid", s.line,
                         "the receive buffer is allocated from the wire length without passing nni_msg_size_valid(len)",
                         G.path_lines(f, (f.entry, 0), pos, valid))
            if not big or not lim:
                ctx.fail(r, f, "receive limit test missing", s.line, "%s no longer compares the announced length with rcvmax" % name)
                continue
            # every path to the allocation has refuted one of the two facts: it crossed the edge on which len <= rcvmax,
            # or the edge on which rcvmax == 0
            refuted = {bb: 1 - k for bb, k in big.items()}
            refuted.update({bb: 1 - k for bb, k in lim.items()})
            if G.dominated(f, pos, refuted):
                r.ob(f, "alloc unreachable when len > rcvmax && rcvmax > 0")
            else:
                ctx.fail(r, f, "oversize message allocated", s.line,
                         "nni_msg_alloc is reachable on a path that crossed neither the len <= rcvmax edge nor the rcvmax == 0 "
                         "edge: NNG_OPT_RECVMAXSZ can be exceeded", G.path_lines(f, (f.entry, 0), pos, refuted))


def rule_r2(ctx):
    r = ctx.rule("C11.R2", "T1", "handshake: a negotiated connection is moved to the wait list / matched only after all six "
                 "fixed handshake octets (00 'S' 'P' 00 .. .. 00 00) were compared; a failed negotiation reports NNG_ECONNSHUT, "
                 "never the endpoint-terminal NNG_ECLOSED, to the endpoint's user", floor=21)
    prog = ctx.prog
    want = {0: 0, 1: ord("S"), 2: ord("P"), 3: 0, 6: 0, 7: 0}
    for name, file, match in NEGO:
        f = prog.need(name, file)
        offers = [s for s in f.calls(match)] + [s for s in f.calls("nni_list_append") if "waitpipes" in show(f.expand(s.node["args"][0]))]
        G.need_sites(offers, "offer of the negotiated pipe", f)
        # edges on which handshake octet k is known to equal v, whatever the spelling of the test (a chain of !=, one
        # conjunction of ==, a boolean helper that was inlined)
        eq = {}       # octet -> {value: {block: edge}}
        for bid, k, atom, val in G.edge_facts(f):
            if atom.get("k") != "bin" or atom["op"] not in ("==", "!="):
                continue
            l, rr = atom["lhs"], atom["rhs"]
            if const_of(l) is not None and const_of(rr) is None:
                l, rr = rr, l
            while l.get("k") == "cast":
                l = l["e"]
            if l.get("k") != "idx" or not is_hs_buf(f.expand(l["b"])) or const_of(l["i"]) is None or const_of(rr) is None:
                continue
            if (atom["op"] == "==") == val:
                eq.setdefault(const_of(l["i"]), {}).setdefault(const_of(rr), {})[bid] = k
        for k, v in want.items():
            if k not in eq:
                ctx.fail(r, f, "handshake octet %d unchecked" % k, f.line, "%s no longer compares rxlen[%d]" % (name, k))
                continue
            if v not in eq[k]:
                got = sorted(eq[k])[0]
                ctx.fail(r, f, "handshake octet %d compared with %s" % (k, got), f.line,
                         "rxlen[%d] is compared with %s, the SP handshake requires %s" % (k, got, v))
                continue
            for s in offers:
                if G.dominated(f, (s.b, s.i), eq[k][v]):
                    r.ob(f, "offer line %s dominated by rxlen[%d] == %d" % (s.line, k, v))
                else:
                    ctx.fail(r, f, "pipe offered without checking octet %d" % k, s.line,
                             "the connection is handed to the socket on a path that does not check handshake octet %d" % k)
        # ECLOSED never reaches the endpoint's user / the accept loop
        remap = G.stores_var(f, "rv", "NNG_ECONNSHUT") if hasattr(G, "stores_var") else None
        asg = [t for t in f.assigns() if t.node["lhs"].get("k") == "var" and t.node["lhs"]["n"] == "rv" and
               any(x.get("k") == "enum" and x["n"] == "NNG_ECONNSHUT" for x in walk(f.expand(t.node["rhs"])))]
        closed_true = {}
        for b in f.blocks.values():
            c = f.cond(b.id) if b.term and len(b.succs) == 2 else None
            if c is not None and c.get("k") == "bin" and c["op"] == "==" and c["lhs"].get("k") == "var" and c["lhs"]["n"] == "rv" \
                    and c["rhs"].get("k") == "enum" and c["rhs"]["n"] == "NNG_ECLOSED":
                closed_true[b.id] = 0
        fins = [s for s in f.calls("nni_aio_finish_error")]
        if not asg or not closed_true:
            ctx.fail(r, f, "NNG_ECLOSED not remapped", f.line,
                     "%s no longer turns NNG_ECLOSED into NNG_ECONNSHUT before reporting a failed negotiation" % name)
        else:
            bad = False
            for b, k in closed_true.items():
                tgt = f.blocks[b].succs[k]
                if tgt is not None and G.must_pass(f, (tgt, 0), G.positions(asg), stop=[(s.b, s.i) for s in fins]):
                    bad = True
            # and every path to the report evaluates the test
            tests = {(b, max(len(f.blocks[b].elems) - 1, 0)) for b in closed_true}
            err_fins = [s for s in fins]
            unguarded = [s for s in err_fins if G.reaches(f, (f.entry, 0), [(s.b, s.i)], blocked=tests)]
            if bad or unguarded:
                ctx.fail(r, f, "NNG_ECLOSED can reach the endpoint", (fins[0].line if fins else f.line),
                         "a failed negotiation with rv == NNG_ECLOSED can be reported without being remapped to NNG_ECONNSHUT: "
                         "the core accept loop treats NNG_ECLOSED as 'listener closed' and stops accepting for good")
            else:
                r.ob(f, "rv == NNG_ECLOSED always remapped before the report")


def rule_r3(ctx):
    r = ctx.rule("C11.R3", "T1", "length before parse: in every protocol function each nni_msg_trim_u32 / nni_msg_trim(msg, 4) / "
                 "nni_msg_header_trim_u32 is dominated by a test that at least 4 bytes are present", floor=12)
    prog = ctx.prog
    for f in prog.functions:
        if "/sp/protocol/" not in "/" + f.file or f.cfg_failed:
            continue
        body = [s for s in f.calls(("nni_msg_trim_u32",))] + \
               [s for s in f.calls("nni_msg_trim") if len(s.node["args"]) > 1 and const_of(f.expand(s.node["args"][1])) == 4]
        hdr = [s for s in f.calls("nni_msg_header_trim_u32")]
        if not body and not hdr:
            continue
        lenok = G.cmp_edges(f, c04.is_call("nni_msg_len"), {"<": 1, ">=": 0}, rhs_match=lambda x: const_of(x) == 4)
        lenok.update(G.cmp_edges(f, lambda n: n.get("k") == "var" and n["n"] == "len", {"<": 1, ">=": 0},
                                 rhs_match=lambda x: const_of(x) == 4))
        hlenok = G.cmp_edges(f, c04.is_call("nni_msg_header_len"), {"<": 1, ">=": 0, "!=": 1, "==": 0},
                             rhs_match=lambda x: const_of(x) == 4)
        for s in body:
            if lenok and G.dominated(f, (s.b, s.i), lenok):
                r.ob(f, "%s line %s dominated by len >= 4" % (s.node["fn"], s.line))
            else:
                ctx.fail(r, f, "%s without length test" % s.node["fn"], s.line,
                         "%s reads 4 bytes from a body whose length was not tested on this path" % s.node["fn"],
                         G.path_lines(f, (f.entry, 0), (s.b, s.i), lenok))
        for s in hdr:
            if hlenok and G.dominated(f, (s.b, s.i), hlenok):
                r.ob(f, "%s line %s dominated by header_len >= 4" % (s.node["fn"], s.line))
            else:
                ctx.fail(r, f, "%s without length test" % s.node["fn"], s.line,
                         "%s reads 4 bytes from a header whose length was not tested on this path" % s.node["fn"],
                         G.path_lines(f, (f.entry, 0), (s.b, s.i), hlenok))


def rule_r4(ctx):
    r = ctx.rule("C11.R4", "T2", "accept loops survive: the core accept callback and every transport accept callback re-arm "
                 "(accept again, or arm the cool-down timer) on every path that is not under a terminal result code "
                 "(NNG_ECLOSED / NNG_ESTOPPED / NNG_ECANCELED; NNG_ECONNABORTED in the core) or the endpoint's closed flag",
                 floor=5)
    prog = ctx.prog
    TERMINAL = {"NNG_ECLOSED", "NNG_ESTOPPED", "NNG_ECANCELED"}
    CASES = [
        ("listener_accept_cb", "core/listener.c", ("listener_accept_start", "nni_sleep_aio"), TERMINAL | {"NNG_ECONNABORTED"}),
        ("tcptran_accept_cb", "transport/tcp/tcp.c", ("nng_stream_listener_accept", "nng_sleep_aio", "nni_sleep_aio"), TERMINAL),
        ("ipc_ep_accept_cb", "transport/ipc/ipc.c", ("nng_stream_listener_accept", "nng_sleep_aio", "nni_sleep_aio"), TERMINAL),
        ("sfd_tran_accept_cb", "transport/socket/sockfd.c", ("nng_stream_listener_accept", "nng_sleep_aio", "nni_sleep_aio"), TERMINAL),
        ("wstran_accept_cb", "transport/ws/websocket.c", ("nng_stream_listener_accept", "nng_sleep_aio", "nni_sleep_aio"), TERMINAL),
    ]
    for name, file, rearm, terminal in CASES:
        f = prog.need(name, file)
        via = G.positions([s for s in f.calls(rearm)])
        if not via:
            ctx.fail(r, f, "no re-arm", f.line, "%s never accepts again" % name)
            continue
        cut = {}
        # the endpoint's closed flag
        for b in f.blocks.values():
            c = f.cond(b.id) if b.term and len(b.succs) == 2 else None
            if c is not None:
                t = truth_of(c, lambda n: n.get("k") == "mem" and n["f"] == "closed")
                if t:
                    cut[b.id] = 0 if t > 0 else 1
        # edges on which the result is known to be a terminal code (switch cases and comparisons alike)
        settled = set()
        for v in f.locals():
            settled |= G.value_known_edges(f, v, names=terminal)

        def blocked(b, i, e):
            return (b, i) in via

        def edge_ok(b, k):
            return not (b in cut and k == cut[b]) and (b, k) not in settled
        seen2 = G.reach_flags(f, (f.entry, 0), blocked=blocked, edge_ok=edge_ok)
        if (f.exit, 0) in seen2:
            path = f.find_path((f.entry, 0), lambda bb, ii: (bb, ii) == (f.exit, 0), blocked=blocked, edge_ok=edge_ok)
            ctx.fail(r, f, "path without re-arm", f.line,
                     "%s can return without accepting again or arming its cool-down timer on a path that is not a terminal "
                     "result (%s) or endpoint-closed: one bad connection stops the listener" % (name, "/".join(sorted(terminal))),
                     f.path_lines(path))
        else:
            r.ob(f, "every non-terminal path re-arms (%d re-arm sites)" % len(via))
        # the cool-down timer is the other half of the loop: when it fires (result 0) it accepts again, whatever else is
        # going on at the endpoint (whether somebody waits for a connection right now is not its business: the connection
        # is parked until somebody does)
        for sl in f.calls(("nni_sleep_aio", "nng_sleep_aio")):
            if len(sl.node["args"]) < 2 or sl.node["args"][1] is None:
                continue
            tfield = last_field(f.expand(sl.node["args"][1]))
            cbs = [cb for (g0, aio_e, cb, arg, site) in prog.aio_callbacks() if last_field(aio_e) == tfield]
            if not cbs:
                raise AnalysisBroken("%s: callback of the cool-down timer %s not found" % (name, tfield))
            g = prog.need(cbs[0], file)
            gvia = G.positions([s_ for s_ in g.calls(rearm) if s_.node["fn"] not in ("nni_sleep_aio", "nng_sleep_aio")])
            gcut = {}
            for c_ in g.calls("nni_aio_result"):
                for b_, (nz, z) in g.value_edges(c_).items():
                    gcut[b_] = nz
            for b_ in g.blocks.values():
                cc = g.cond(b_.id) if b_.term and len(b_.succs) == 2 else None
                if cc is not None:
                    t_ = truth_of(cc, lambda n_: n_.get("k") == "mem" and n_["f"] == "closed")
                    if t_:
                        gcut[b_.id] = 0 if t_ > 0 else 1
            gseen = g.reach((g.entry, 0), blocked=lambda b, i, e: (b, i) in gvia, edge_ok=lambda b, k: not (b in gcut and k == gcut[b]))
            if not gvia or (g.exit, 0) in gseen:
                ctx.fail(r, g, "cool-down timer fires without accepting again", g.line,
                         "%s, the callback of the timer %s arms after a refused accept (out of descriptors / memory), can return "
                         "with result 0 and the endpoint open without calling the accept again: after one transient failure "
                         "the listener never accepts another connection" % (g.name, name))
            else:
                r.ob(g, "cool-down timer of %s accepts again whenever it fires" % name)


def rule_r5(ctx):
    r = ctx.rule("C11.R5", "T10", "only the offending connection is dropped: no function bound as completion callback of a pipe's "
                 "aio in a protocol or transport closes a socket, listener or dialer", floor=40)
    prog = ctx.prog
    FORBID = ("nni_sock_close", "nni_sock_shutdown", "nni_listener_close", "nni_dialer_close", "nng_close", "nng_socket_close",
              "nni_listener_stop", "nng_listener_close", "nng_dialer_close")
    n = 0
    for (ifn, aioexpr, cb, arg, site) in prog.aio_callbacks():
        lf = last_field(ifn.expand(aioexpr)) or ""
        if "_pipe." not in lf and not lf.split(".")[0].endswith("pipe"):
            continue
        f = prog.fn(cb, ifn.file) or prog.fn(cb)
        if f is None:
            continue
        n += 1
        bad = [s for s in f.calls(FORBID)]
        if bad:
            ctx.fail(r, f, "%s in a pipe callback" % bad[0].node["fn"], bad[0].line,
                     "%s (completion callback of %s) calls %s: a single connection's failure takes down an endpoint or socket"
                     % (f.name, lf, bad[0].node["fn"]))
        else:
            r.ob(f, "callback of %s closes no endpoint/socket" % lf)
    if n < 40:
        raise AnalysisBroken("only %d pipe callbacks found" % n)


def rule_ws(ctx):
    r = ctx.rule("C11.R7", "T9", "websocket receive limits: the per-message total compared with recvmax is summed over the list "
                 "completed data frames are collected in; frame length is compared with maxframe before the payload is "
                 "allocated", floor=3)
    prog = ctx.prog
    f = prog.need("ws_read_cb", "supplemental/websocket/websocket.c")
    g = prog.need("ws_read_frame_cb", "supplemental/websocket/websocket.c")
    collected = {last_field(g.expand(s.node["args"][0])) for s in g.calls("nni_list_append")
                 if len(s.node["args"]) > 1 and g.expand(s.node["args"][1]).get("k") == "var"}
    collected.discard(None)
    summed = {last_field(f.expand(s.node["args"][0])) for s in f.calls(("nni_list_first", "nni_list_next")) if s.node["args"]}
    summed.discard(None)
    if not collected or not summed:
        raise AnalysisBroken("ws_read_cb / ws_read_frame_cb list anchors vanished")
    if summed <= collected:
        r.ob(f, "recvmax total summed over %s, frames collected in %s" % (sorted(summed), sorted(collected)))
    else:
        ctx.fail(r, f, "recvmax summed over %s" % ",".join(sorted(summed - collected)), f.line,
                 "the message total that is compared with recvmax is summed over %s, but received frames are collected in %s: "
                 "a fragmented message can exceed NNG_OPT_RECVMAXSZ" % (sorted(summed), sorted(collected)))
    allocs = G.need_sites([s for s in f.calls("nni_alloc")], "payload allocation", f)
    okmax = {}
    okrecv = {}
    for b in f.blocks.values():
        c = f.cond(b.id) if b.term and len(b.succs) == 2 else None
        if c is not None and c.get("k") == "bin" and c["op"] == ">" and G.field_is(c["rhs"], "maxframe"):
            okmax[b.id] = (b.id, max(len(b.elems) - 1, 0))
        if c is not None and c.get("k") == "bin" and c["op"] == ">" and G.field_is(c["rhs"], "recvmax"):
            okrecv[b.id] = (b.id, max(len(b.elems) - 1, 0))
    for s in allocs:
        if okmax and not G.reaches(f, (f.entry, 0), [(s.b, s.i)], blocked=set(okmax.values())):
            r.ob(f, "payload allocation preceded by the maxframe test")
        else:
            ctx.fail(r, f, "payload allocated before maxframe test", s.line, "the frame payload is allocated without comparing its "
                     "length with maxframe")
    if okrecv:
        r.ob(f, "recvmax test present")
    else:
        ctx.fail(r, f, "recvmax test missing", f.line, "ws_read_cb no longer compares the message total with recvmax")



def rule_r6(ctx):
    r = ctx.rule("C11.R6", "T3", "park before serve: where a function stores the caller's aio into a field of an endpoint and calls, in "
                 "the same critical section, a helper that completes whatever that field holds, the store comes first -- a helper "
                 "that runs before the store finds nothing to complete and the waiting connection is never handed over", floor=3)
    prog = ctx.prog
    n = 0
    for f in prog.functions:
        if f.cfg_failed or len(f.params) < 2:
            continue
        aios = {p_["n"] for p_ in f.params if "aio" in (p_.get("t") or "")}
        for t in f.assigns():
            lhs, rhs = t.node["lhs"], f.expand(t.node["rhs"])
            if lhs.get("k") != "mem" or rhs is None or rhs.get("k") != "var" or rhs["n"] not in aios:
                continue
            fld = last_field(lhs)
            base = lhs["b"]
            for c in f.calls():
                h = prog.resolve(f, c.node["fn"]) if c.node.get("fn") else None
                if h is None or h.cfg_failed or h.file != f.file or h is f:
                    continue
                if not any(same_expr(f.expand(a), base) for a in c.node["args"] if a is not None):
                    continue
                reads = [x for x in h.sites() if x.node.get("k") == "mem" and last_field(x.node) == fld]
                fins = list(h.calls(("nni_aio_finish", "nni_aio_finish_error", "nni_aio_finish_sync")))
                if not reads or not fins:
                    continue
                n += 1
                # a helper called because the field is still occupied evicts the previous occupant; that has to
                # happen before the new aio is stored
                occupied = {}
                for bid, k, atom, val in G.edge_facts(f):
                    if atom.get("k") == "mem" and last_field(atom) == fld and val:
                        occupied[bid] = k
                for b_, k_ in G.nz_edges(f, lambda m: m.get("k") == "mem" and last_field(m) == fld).items():
                    occupied.setdefault(b_, k_)
                if occupied and G.dominated(f, (c.b, c.i), occupied) and (c.b, c.i) not in f.reach((t.b, t.i + 1)):
                    r.ob(f, "%s evicts the previous occupant of %s before the store" % (h.name, fld))
                elif f.dominated_by((c.b, c.i), blocked=lambda b, i, e: (b, i) == (t.b, t.i)):
                    r.ob(f, "%s stored before %s" % (fld, h.name))
                else:
                    ctx.fail(r, f, "%s called before %s is stored" % (h.name, fld), c.line,
                             "%s completes the operation held in %s, but %s calls it at line %s before storing the caller's aio "
                             "there (line %s): a connection that is already waiting is not handed over until some later event"
                             % (h.name, fld, f.name, c.line, t.line))
    if n < 3:
        raise AnalysisBroken("only %d park-then-serve sites found" % n)



def rule_r8(ctx):
    r = ctx.rule("C11.R8", "T3", "udp: the payload length handed to the DATA handler is the datagram size minus the SP/UDP header: "
                 "between n = nng_aio_count(aio) and udp_recv_data(.., n, ..) the header size is subtracted, on the edge that "
                 "established n >= sizeof(header)", floor=2)
    f = ctx.prog.fn("udp_rx_cb", "transport/udp/udp.c")
    if f is None:
        raise AnalysisBroken("udp transport not in the build")
    calls = G.need_sites(list(f.calls("udp_recv_data")), "udp_recv_data", f)
    for c in calls:
        nv = None
        for a in c.node["args"]:
            a = f.expand(a)
            if a is not None and a.get("k") == "var" and any(x is not None and x.get("k") == "call" and x.get("fn") in
                                                              ("nng_aio_count", "nni_aio_count") for _, x in G.var_defs(f, a["n"])):
                nv = a["n"]
        if nv is None:
            ctx.fail(r, f, "payload length not derived from the datagram size", c.line,
                     "udp_recv_data is not given a length that comes from nng_aio_count(aio)")
            continue
        subs = [t for t in f.assigns() if t.node["lhs"].get("k") == "var" and t.node["lhs"]["n"] == nv and
                ((t.node.get("op") == "-=" and f.expand(t.node["rhs"]).get("k") == "sizeof") or
                 (t.node.get("op") == "=" and any(m.get("k") == "bin" and m["op"] == "-" and m["rhs"].get("k") == "sizeof"
                                                    for m in walk(f.expand(t.node["rhs"])))))]
        big = G.rel_edges(f, lambda n: (n.get("k") == "var" and n["n"] == nv) or
                          (n.get("k") == "call" and n.get("fn") in ("nng_aio_count", "nni_aio_count")),
                          lambda n: n.get("k") == "sizeof", ">=")
        if subs and f.dominated_by((c.b, c.i), blocked=lambda b, i, e: (b, i) in G.positions(subs)):
            r.ob(f, "header size subtracted before the DATA handler")
        else:
            ctx.fail(r, f, "header size not subtracted from the payload length", c.line,
                     "udp_recv_data is called with the full datagram size: a peer can claim up to sizeof(header) payload bytes it "
                     "never sent, and stale receive-buffer bytes of another peer are delivered")
        if big and all(G.dominated(f, (t.b, t.i), big) for t in subs):
            r.ob(f, "subtraction only when n >= sizeof(header)")
        elif subs:
            ctx.fail(r, f, "header size subtracted without the size test", subs[0].line, "n can wrap below zero")


def rule_r10(ctx):
    r = ctx.rule("C11.R10", "T1", "udp: the length a DATA header announces becomes the message length only after it was compared "
                 "with the number of payload bytes that actually arrived (the handler's length parameter, see R8) -- a peer "
                 "cannot claim bytes it never sent", floor=1)
    prog = ctx.prog
    f = prog.fn("udp_rx_cb", "transport/udp/udp.c")
    if f is None:
        raise AnalysisBroken("udp transport not in the build")
    n = 0
    for c in G.need_sites(list(f.calls("udp_recv_data")), "udp_recv_data", f):
        h = prog.resolve(f, "udp_recv_data")
        if h is None or h.cfg_failed:
            raise AnalysisBroken("udp_recv_data has no CFG")
        idx = None
        for i, a in enumerate(c.node["args"]):
            a = f.expand(a)
            if a is not None and a.get("k") == "var" and any(x is not None and x.get("k") == "call" and x.get("fn") in
                                                              ("nng_aio_count", "nni_aio_count") for _, x in G.var_defs(f, a["n"])):
                idx = i
        if idx is None or idx >= len(h.params):
            continue          # reported by R8
        pname = h.params[idx]["n"]

        def is_wire(m):
            return m is not None and any(x.get("k") == "mem" and x.get("f") == "us_params" for x in walk(m)) and m.get("k") in ("idx", "mem", "cast")

        def is_len(m):
            return m is not None and m.get("k") == "var" and m["n"] == pname
        ok_edges = G.rel_edges(h, is_wire, is_len, "<=")
        uses = []
        for t in h.sites():
            nd = t.node
            if nd.get("k") == "asg" and is_wire(h.expand(nd["rhs"])):
                uses.append(t)
            elif nd.get("k") == "call" and any(is_wire(h.expand(a)) for a in nd["args"] if a is not None):
                uses.append(t)
            elif nd.get("k") == "decls" and any(d.get("init") is not None and is_wire(h.expand(d["init"])) for d in nd["d"]):
                uses.append(t)
        if not uses:
            raise AnalysisBroken("udp_recv_data no longer reads the announced length")
        for t in uses:
            n += 1
            if ok_edges and G.dominated(h, (t.b, t.i), ok_edges):
                r.ob(h, "announced length used at line %s only after it was compared with %s" % (t.line, pname))
            else:
                ctx.fail(r, h, "announced length used without comparing it with %s" % pname, t.line,
                         "the DATA header's length is used at line %s on a path that never established that it does not exceed "
                         "%s, the number of payload bytes received: a peer can claim more bytes than it sent, and what is "
                         "delivered is padded with stale receive-buffer contents of other peers" % (t.line, pname))
    if n < 1:
        raise AnalysisBroken("no use of the announced DATA length found")


CONSUME = ("nni_msg_free", "nng_msg_free", "nni_lmq_put", "nni_aio_finish_msg", "nni_pipe_send", "nni_msgq_aio_put", "nni_msgq_tryput")
ARM = {"nni_pipe_recv": 1, "nni_msgq_aio_get": 1}      # arming call -> index of the aio argument


def _fld(g, e, pos):
    e = g.expand(e) if e is not None else None
    lf = last_field(e) if e is not None else None
    if lf is None and e is not None:
        lf = last_field(G.resolve(g, e, pos))
    return lf


def _arm_sites(prog, f, lf, depth=0):
    """positions in f that (re-)arm the aio field lf: an arming call on it, or a call of a file-local helper that arms it
    on every path to its exit"""
    sites = set()
    for c in f.calls():
        fnm = c.node.get("fn")
        if fnm in ARM and len(c.node["args"]) > ARM[fnm] and _fld(f, c.node["args"][ARM[fnm]], (c.b, c.i)) == lf:
            sites.add((c.b, c.i))
        elif fnm and depth < 2:
            h = prog.resolve(f, fnm)
            if h is not None and h is not f and h.file == f.file and h.static and not h.cfg_failed:
                hs = _arm_sites(prog, h, lf, depth + 1)
                if hs and h.dominated_by((h.exit, 0), blocked=lambda b, i, e: (b, i) in hs):
                    sites.add((c.b, c.i))
    return sites


def rule_r9(ctx):
    r = ctx.rule("C11.R9", "T2", "a message pump survives a dropped message: in every protocol callback of an aio that is armed with "
                 "nni_pipe_recv or nni_msgq_aio_get, each path on which the message is taken off that aio (freed, queued, handed "
                 "on, or the aio's message cleared) goes on to re-arm the same aio (directly or through a wrapper), to close the "
                 "pipe, or to start another aio of the same object whose callback re-arms it -- otherwise one bad message "
                 "silently wedges the connection (or the whole socket's send side)", floor=60)
    prog = ctx.prog
    cbs = {}
    for (f, aio, cb, arg, site) in prog.aio_callbacks():
        lf = last_field(f.expand(aio)) if aio is not None else None
        if "/protocol/" in f.file and lf:
            cbs.setdefault(f.file, {})[lf] = cb
    n = 0
    for file, amap in sorted(cbs.items()):
        ffns = [h for h in prog.functions if h.file == file and not h.cfg_failed]
        for lf, cb in sorted(amap.items()):
            g = prog.fn(cb, file)
            if g is None or g.cfg_failed:
                continue
            if not any(_arm_sites(prog, h, lf, 2) for h in ffns):
                continue      # not a pump: nothing arms this aio with a receive / queue get
            n += 1
            fld = lf.split(".", 1)[1]
            rec = lf.split(".")[0]
            # other aios of the same object whose callback re-arms this one
            fwd = set()
            for lf2, cb2 in amap.items():
                g2 = prog.fn(cb2, file)
                if lf2 != lf and g2 is not None and not g2.cfg_failed and lf2.split(".")[0] == rec and _arm_sites(prog, g2, lf):
                    fwd.add(lf2)
            cont = set(_arm_sites(prog, g, lf))
            consume = []
            msgvars = set()
            for t in g.sites():
                nd = t.node
                if nd.get("k") == "decls":
                    for d in nd["d"]:
                        e = g.expand(d["init"]) if d.get("init") is not None else None
                        if e is not None and e.get("k") == "call" and e.get("fn") == "nni_aio_get_msg" and e["args"] and _fld(g, e["args"][0], (t.b, t.i)) == lf:
                            msgvars.add(d["n"])
                elif nd.get("k") == "asg" and nd["lhs"].get("k") == "var":
                    e = g.expand(nd["rhs"])
                    if e is not None and e.get("k") == "call" and e.get("fn") == "nni_aio_get_msg" and e["args"] and _fld(g, e["args"][0], (t.b, t.i)) == lf:
                        msgvars.add(nd["lhs"]["n"])
            for c in g.calls():
                fnm = c.node.get("fn")
                args = [g.expand(a) if a is not None else None for a in c.node["args"]]
                if (c.b, c.i) in cont:
                    continue
                if fnm == "nni_pipe_close":
                    cont.add((c.b, c.i))
                    continue
                if any(a is not None and _fld(g, a, (c.b, c.i)) in fwd for a in args) and fnm not in ("nni_aio_set_msg", "nni_aio_get_msg", "nni_aio_result"):
                    cont.add((c.b, c.i))        # nni_msgq_aio_put(urq, &p->aio_putq), nni_pipe_send(..., &p->aio_send) style hand-off
                    continue
                if fnm == "nni_aio_set_msg" and len(args) > 1 and _fld(g, args[0], (c.b, c.i)) == lf and is_null(args[1]):
                    consume.append((c, "message cleared on %s" % fld))
                elif fnm in CONSUME and any(a is not None and a.get("k") == "call" and a.get("fn") == "nni_aio_get_msg" and a["args"] and
                                            _fld(g, a["args"][0], (c.b, c.i)) == lf for a in args):
                    consume.append((c, "%s(nni_aio_get_msg(%s))" % (fnm, fld)))
                elif fnm in CONSUME and any(a is not None and a.get("k") == "var" and a["n"] in msgvars for a in args):
                    consume.append((c, "%s(%s)" % (fnm, ",".join(a["n"] for a in args if a is not None and a.get("k") == "var" and a["n"] in msgvars))))
            # parked: the message is stored in a field of the object from which another function of the file takes it and re-arms
            for t in g.assigns():
                l = t.node["lhs"]
                e = g.expand(t.node["rhs"])
                if l.get("k") == "mem" and e is not None and e.get("k") == "var" and e["n"] in msgvars:
                    pf = last_field(l)
                    if pf and pf.split(".")[0] == rec and any(
                            h is not g and _arm_sites(prog, h, lf) and any(x.node.get("k") == "mem" and last_field(x.node) == pf for x in h.sites())
                            for h in ffns):
                        cont.add((t.b, t.i))
            # a pipe that its close slot has already marked closed is not re-armed
            closed_edges = {}
            slotfns = {h.name for sl in ("nni_proto_pipe_ops.pipe_close", "nni_proto_pipe_ops.pipe_stop") for h in prog.slot_fns(sl)}
            for bid, k, atom, val in G.edge_facts(g):
                if val and atom.get("k") == "mem" and (last_field(atom) or "").split(".")[0] == rec:
                    cf = last_field(atom)
                    setters = [h.name for h in ffns for t in h.assigns()
                               if t.node["lhs"].get("k") == "mem" and last_field(t.node["lhs"]) == cf and const_of(h.expand(t.node["rhs"])) not in (None, 0)]
                    if setters and all(x in slotfns for x in setters):
                        closed_edges[bid] = k
            if not consume:
                raise AnalysisBroken("%s: no site takes the message off %s" % (g.name, lf))
            for c, what in consume:
                if any(G.dominated(g, (c.b, c.i), {b_: k_}) for b_, k_ in closed_edges.items()):
                    r.ob(g, "%s line %s: the pipe was already marked closed by its close slot" % (what, c.line))
                    continue
                after = g.reach((c.b, c.i + 1), blocked=lambda b, i, e: (b, i) in cont,
                                edge_ok=lambda b, k: not (b in closed_edges and closed_edges[b] == k))
                # ... or a continuation already happened before this site on every path (re-arm first, then queue)
                before = g.dominated_by((c.b, c.i), blocked=lambda b, i, e: (b, i) in cont)
                if (g.exit, 0) in after and not before:
                    path = g.find_path((c.b, c.i + 1), lambda b, i: (b, i) == (g.exit, 0), blocked=lambda b, i, e: (b, i) in cont,
                                       edge_ok=lambda b, k: not (b in closed_edges and closed_edges[b] == k))
                    ctx.fail(r, g, "%s then no re-arm" % what.split("(")[0], c.line,
                             "%s takes the message off %s at line %s (%s) and can return without re-arming that aio, closing the "
                             "pipe or starting a forwarding aio: nothing is ever received on this connection / taken from this "
                             "queue again, with no error reported" % (g.name, fld, c.line, what), g.path_lines(path))
                else:
                    r.ob(g, "%s line %s: the pump continues on every path" % (what, c.line))
    if n < 20:
        raise AnalysisBroken("only %d protocol pump callbacks recognised" % n)


def rule_r11(ctx):
    r = ctx.rule("C11.R11", "T1", "the peer is validated before the pipe is used: in every protocol's pipe_start, each call (other than "
                 "reading the peer id, logging, statistics and taking the socket lock) is made only on the edge on which "
                 "nni_pipe_peer(...) matched the expected protocol -- a peer of the wrong protocol is refused before it is "
                 "given queued messages, scheduled, or registered", floor=15)
    prog = ctx.prog
    HARMLESS = ("nni_pipe_peer", "nng_log_warn", "nng_log_debug", "nng_log_info", "nni_pipe_id", "nni_stat_inc", "nni_mtx_lock",
                "nni_mtx_unlock", "nni_sock_id", "nni_pipe_sock", "nni_atomic_get")
    n = 0
    for f in prog.slot_fns("nni_proto_pipe_ops.pipe_start"):
        if f.cfg_failed:
            continue
        ok = {}
        for bid, k, atom, val in G.edge_facts(f):
            if any(m.get("k") == "call" and m.get("fn") == "nni_pipe_peer" for m in walk(atom)) and atom.get("k") == "bin":
                if (atom["op"] == "==" and val) or (atom["op"] == "!=" and not val):
                    ok[bid] = k
        if not ok:
            raise AnalysisBroken("%s does not compare nni_pipe_peer with the expected protocol" % f.name)
        n += 1
        bad = [c for c in f.calls() if c.node.get("fn") not in HARMLESS and not G.dominated(f, (c.b, c.i), ok)]
        if bad:
            ctx.fail(r, f, "%s before the peer check" % (bad[0].node.get("fn") or "call"), bad[0].line,
                     "%s calls %s at line %s on a path that has not yet established that the peer speaks the expected protocol: "
                     "a connection that is about to be refused with NNG_EPROTO is already used (given a queued message, "
                     "scheduled for receive, registered)" % (f.name, show(bad[0].node)[:60], bad[0].line))
        else:
            r.ob(f, "everything after the peer check")
    if n < 15:
        raise AnalysisBroken("only %d pipe_start functions found" % n)


def rule_r12(ctx):
    r = ctx.rule("C11.R12", "T9", "both ends configure a new websocket connection alike: the per-connection policy fields that the listener "
                 "side copies from its endpoint (receive limit, frame limit, stream / text modes) are also copied by the dialer "
                 "side from its endpoint -- a limit that one side forgets is simply not enforced on the connections it creates "
                 "(NNG_OPT_RECVMAXSZ of a dialing socket)", floor=4)
    prog = ctx.prog
    sets = {"nni_ws_listener": {}, "nni_ws_dialer": {}}
    for f in prog.fns_in("supplemental/websocket/websocket.c"):
        if f.cfg_failed:
            continue
        for t in f.assigns():
            l = t.node["lhs"]
            e = f.expand(t.node["rhs"])
            if l.get("k") != "mem" or (last_field(l) or "").split(".")[0] != "nni_ws" or e is None or e.get("k") != "mem":
                continue
            src = (last_field(e) or ".").split(".")[0]
            if src in sets:
                sets[src].setdefault(l.get("f"), (f, t))
    L, D = sets["nni_ws_listener"], sets["nni_ws_dialer"]
    if len(L) < 3 or len(D) < 3:
        raise AnalysisBroken("the two constructors of a websocket connection were not recognised (listener copies %d fields, dialer %d)" % (len(L), len(D)))
    for fld in sorted(set(L) | set(D)):
        if fld in L and fld in D:
            r.ob(D[fld][0], "%s configured on both sides" % fld)
        else:
            have, miss = (L, "dialer") if fld in L else (D, "listener")
            f, t = have[fld]
            ctx.fail(r, f, "%s copied to new connections only on the %s side" % (fld, "listener" if miss == "dialer" else "dialer"), t.line,
                     "%s sets ws->%s from its endpoint at line %s, but the %s side never does: connections created by a %s keep the "
                     "zero default, so the limit / mode configured on that endpoint has no effect on them"
                     % (f.name, fld, t.line, miss, miss))


# ---------------------------------------------------------------------------
# R14: a word taken from the wire keeps its unsigned type until it has been range-checked

WIRE_WORD_GETTERS = ("nni_msg_trim_u32", "nni_msg_header_trim_u32", "nni_msg_chop_u32", "nni_msg_header_chop_u32",
                     "nni_msg_trim_u16", "nni_msg_trim_u64", "nni_msg_peek_u32", "nni_msg_header_peek_u32")


def rule_r14(ctx):
    import re
    r = ctx.rule("C11.R14", "T11", "a word taken from the wire keeps its unsigned type until it has been range-checked: wherever the "
                 "result of nni_msg_trim_u32 / nni_msg_header_trim_u32 / nni_msg_chop_u32 (...) is kept in a local, the local "
                 "has an unsigned type at least as wide and no cast to a signed or narrower type stands between the call and "
                 "the store -- in a signed variable every value with the top bit set is negative and passes the upper-bound "
                 "tests (hop count > 0xff, > ttl) that are meant to reject it", floor=6)
    prog = ctx.prog
    UNS = re.compile(r"^(const )?(uint32_t|uint64_t|size_t|unsigned( int| long( long)?)?|uintptr_t|nni_time)$")
    n = 0
    for f in prog.functions:
        if f.cfg_failed or f.file.endswith("_test.c") or "/sp/" not in "/" + f.file:
            continue
        for s_ in f.sites():
            if f.blocks[s_.b].elems[s_.i] is not s_.node:
                continue
            for m in walk(f.expand(s_.node)):
                tgt = None
                if m.get("k") == "asg" and m.get("op") == "=" and m["lhs"].get("k") == "var":
                    tgt, rhs = m["lhs"]["n"], m["rhs"]
                    cands = [(tgt, rhs, (f.locals().get(tgt) or {}).get("t") or "")]
                elif m.get("k") == "decls":
                    cands = [(d["n"], d["init"], d.get("t") or "") for d in m["d"] if d.get("init") is not None]
                else:
                    continue
                for name, rhs, ty in cands:
                    casts = []
                    rr = f.expand(rhs) if rhs is not None else None
                    while rr is not None and rr.get("k") == "cast":
                        casts.append(rr.get("t") or "")
                        rr = f.expand(rr["e"])
                    if rr is None or rr.get("k") != "call" or rr.get("fn") not in WIRE_WORD_GETTERS:
                        continue
                    n += 1
                    wide64 = rr["fn"].endswith("u64")
                    bad_t = not UNS.match(ty.strip()) or (wide64 and "32" in ty)
                    bad_c = [c for c in casts if c and not UNS.match(c.strip())]
                    if bad_t or bad_c:
                        ctx.fail(r, f, "wire word from %s kept as %s" % (rr["fn"], ty if bad_t else bad_c[0]), s_.line,
                                 "%s stores the result of %s in %s (%s%s) at line %s: values with the top bit set turn negative "
                                 "(or are truncated) and slip under the upper-bound checks that follow"
                                 % (f.name, rr["fn"], name, ty, (", through a cast to " + bad_c[0]) if bad_c else "", s_.line))
                    else:
                        r.ob(f, "%s = %s(...) kept as %s" % (name, rr["fn"], ty))
    if n < 6:
        raise AnalysisBroken("only %d wire words kept in locals found" % n)


# ---------------------------------------------------------------------------
# R15: a sleep computed as "deadline - now" is not entered with a deadline in the past


def rule_r15(ctx):
    r = ctx.rule("C11.R15", "T1", "a sleep until a deadline is not computed from a deadline in the past: where the duration given to "
                 "nni_sleep_aio is a difference T - now of two times (now sampled from nni_clock in the same function), either "
                 "the call is reached only over an edge that compared T (or the difference) with now (or 0), or every value "
                 "this function stores into T was chosen by a comparison with now (directly, or through a local defined by a "
                 "conditional on such a comparison). A peer that falls silent leaves its refresh time in the past: the "
                 "difference is then <= 0 -- the timer spins, and at exactly -1 (NNG_DURATION_INFINITE) it sleeps for ever, "
                 "so dead peers are never reaped and fill the endpoint up to its peer limit", floor=1)
    prog = ctx.prog
    n = 0
    for f in prog.functions:
        if f.cfg_failed or f.file.endswith("_test.c"):
            continue
        clocks = set()
        for t in f.sites():
            for m in walk(f.expand(t.node)):
                if m.get("k") == "asg" and m["lhs"].get("k") == "var" and any(c.get("k") == "call" and c.get("fn") == "nni_clock" for c in walk(m["rhs"])):
                    clocks.add(m["lhs"]["n"])
                if m.get("k") == "decls":
                    for d in m["d"]:
                        if d.get("init") is not None and any(c.get("k") == "call" and c.get("fn") == "nni_clock" for c in walk(f.expand(d["init"]))):
                            clocks.add(d["n"])
        if not clocks:
            continue

        def is_now(x):
            while x is not None and x.get("k") == "cast":
                x = x["e"]
            return x is not None and x.get("k") == "var" and x["n"] in clocks

        def cmp_with_now(c):
            """does the condition c compare something with the clock sample?"""
            return any(m.get("k") == "bin" and m.get("op") in ("<", "<=", ">", ">=") and (is_now(m["lhs"]) or is_now(m["rhs"]))
                       for m in walk(c))
        for c in f.calls("nni_sleep_aio"):
            d = G.resolve(f, f.expand(c.node["args"][0]), (c.b, c.i)) if c.node["args"] else None
            subs = [m for m in walk(d) if m.get("k") == "bin" and m.get("op") == "-" and is_now(m["rhs"])] if d is not None else []
            if not subs:
                continue
            n += 1
            T = subs[0]["lhs"]
            while T is not None and T.get("k") == "cast":
                T = T["e"]
            tf = last_field(T) if T is not None and T.get("k") == "mem" else None
            # (i) the call itself is guarded by a comparison with now / of the difference with 0
            guard = {}
            for bid, k, atom, val in G.edge_facts(f):
                if atom.get("k") == "bin" and atom.get("op") in ("<", "<=", ">", ">="):
                    if (is_now(atom["lhs"]) or is_now(atom["rhs"])) and any(same_expr(x, T) for x in (atom["lhs"], atom["rhs"])):
                        guard[bid] = k
            # (ii) every store into T in this function was chosen against now
            ok2 = tf is not None
            stores = []
            if tf is not None:
                for t in f.assigns():
                    if t.node["lhs"].get("k") == "mem" and last_field(t.node["lhs"]) == tf:
                        rhs = f.expand(t.node["rhs"])
                        if const_of(rhs) is not None:
                            continue            # NNI_TIME_NEVER
                        stores.append(t)
                        chosen = False
                        rr = rhs
                        while rr is not None and rr.get("k") == "cast":
                            rr = rr["e"]
                        if rr is not None and rr.get("k") == "var":
                            for _, dd in G.reaching_defs(f, rr["n"], (t.b, t.i)):
                                if dd is not None and dd.get("k") == "cond" and cmp_with_now(dd["c"]):
                                    chosen = True
                        if rr is not None and rr.get("k") == "cond" and cmp_with_now(rr["c"]):
                            chosen = True
                        if not chosen:
                            cut = {bid: k for bid, k, atom, val in G.edge_facts(f) if atom.get("k") == "bin" and
                                   atom.get("op") in ("<", "<=", ">", ">=") and (is_now(atom["lhs"]) or is_now(atom["rhs"])) and
                                   any(same_expr(x, rr) for x in (atom["lhs"], atom["rhs"]))}
                            chosen = bool(cut) and G.dominated(f, (t.b, t.i), cut)
                        if not chosen:
                            ok2 = False
                ok2 = ok2 and bool(stores)
            if (guard and G.dominated(f, (c.b, c.i), guard)) or ok2:
                r.ob(f, "nni_sleep_aio(%s) at line %s: the deadline was ordered against the clock sample" % (show(d)[:60], c.line))
            else:
                ctx.fail(r, f, "sleep until a deadline that may be in the past", c.line,
                         "%s sleeps for %s (line %s) without having ordered the deadline against the clock: a deadline in the "
                         "past gives a non-positive duration -- the timer completes at once and spins, and -1 is "
                         "NNG_DURATION_INFINITE: it never wakes again" % (f.name, show(d)[:80], c.line))
    if n < 1:
        raise AnalysisBroken("no sleep computed as a difference of times found (udp_timer_cb had one)")


def run(ctx):
    ctx.guard(rule_r1)
    ctx.guard(rule_r2)
    ctx.guard(rule_r3)
    ctx.guard(rule_r4)
    ctx.guard(rule_r5)
    ctx.guard(rule_ws)
    ctx.guard(rule_r6)
    ctx.guard(rule_r8)
    ctx.guard(rule_r9)
    ctx.guard(rule_r10)
    ctx.guard(rule_r11)
    ctx.guard(rule_r12)
    ctx.guard(rule_r14)
    ctx.guard(rule_r15)
    from . import c16
    ctx.guard(c16.rule_r13)      # an unsolicited control frame must not wedge the connection
    for rr in ctx.rules:
        if rr.id == "C16.R13":
            rr.id = "C11.R13"
    from . import c10
    ctx.guard(c10.rule_nego_release)      # a peer that botches the handshake costs nothing that stays: the pipe's last reference is given back
    for rr in ctx.rules:
        if rr.id == "C10.R16":
            rr.id = "C11.R16"
