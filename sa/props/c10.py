"""C10 -- close always terminates, completes everything, invalidates handles."""
from collections import defaultdict
from ..core import show, apath, last_field, AnalysisBroken, walk
from ..locks import lockinfo, Summaries, callees, LOCK, UNLOCK, BARRIER

EXPLANATION = ("C10: structural conditions for terminating teardown: no lock re-entry and no lock-order cycle on any "
               "call chain, every mutex released on every exit, no inline completion or blocking wait under a provider "
               "lock, hold/release pairing of object references on every path, aio field completeness "
               "(close/stop/fini slots), teardown ordering in pipe_reap / sock_shutdown, handle validity guards.")

INLINE = ("nni_aio_finish_sync", "nni_aio_completions_run", "nni_task_exec")
BLOCKING = ("nni_aio_stop", "nni_aio_wait", "nni_task_wait", "nni_thr_fini", "nni_thr_wait", "nni_aio_fini",
            "nni_aio_free", "nni_task_fini")
_sum = {}


def summaries(prog):
    if id(prog) not in _sum:
        _sum[id(prog)] = Summaries(prog, INLINE + BLOCKING + ("nni_cv_wait", "nni_cv_until"))
    return _sum[id(prog)]


def rule_pairing(ctx):
    r = ctx.rule("C10.L0", "T4", "every nni_mtx_lock is released on every path to the function's exit "
                 "(and no unlock without a matching lock)", floor=400)
    WRAPPERS = {}
    for fn in ctx.prog.functions:
        info = lockinfo(fn)
        ncalls = sum(1 for _ in fn.calls())
        if ncalls == 1 and len(info.acquires) + len(info.entry_unlocks) == 1 and fn.name in ("nng_mtx_lock", "nng_mtx_unlock"):
            r.exception(fn.name, "public mutex API wrapper: locking/unlocking the user's mutex is the function's contract")
            continue
        if info.truncated:
            raise AnalysisBroken("lockset simulation truncated in %s" % fn.name)
        bad = {}
        for (l, via) in info.exit_held:
            bad.setdefault(l, via)
        for pos, l, held, n in info.acquires:
            if l in bad:
                continue
            r.ob(fn, "lock %s line %s released on all exits" % ("->".join(l[0]), fn.line_of(*pos)))
        for l, via in bad.items():
            ctx.fail(r, fn, "lock %s held at exit" % l[1], fn.line_of(via, 0),
                     "mutex %s (%s) is still held on a path to the exit through line %s"
                     % ("->".join(l[0]), l[1], fn.line_of(via, len(fn.blocks[via].elems))))
        for l in info.entry_unlocks:
            ctx.fail(r, fn, "unlock %s not held" % l[1], fn.line,
                     "mutex %s (%s) is unlocked on a path where this function does not hold it" % ("->".join(l[0]), l[1]))


def rule_reentry(ctx):
    r = ctx.rule("C10.R2", "T7", "no call chain acquires a lock instance the caller already holds "
                 "(instances tracked through parameters and single-definition locals)", floor=300)
    S = summaries(ctx.prog)
    for fn, info in S.infos.items():
        for pos, n, held in info.calls:
            if not held:
                continue
            heldp = {p: cls for (p, cls) in held}
            for g in callees(ctx.prog, fn, n):
                hit = None
                for (cls, p), chain in S.acq.get(g, {}).items():
                    mp = S._map_path(g, p, info, n) if n.get("fn") else None
                    if mp is not None and mp in heldp:
                        hit = (cls, mp, chain)
                        break
                if hit:
                    cls, mp, chain = hit
                    ctx.fail(r, fn, "%s re-locked via %s" % (cls, g.name), fn.line_of(*pos),
                             "mutex %s is held here and acquired again through %s"
                             % ("->".join(mp), " > ".join(chain)))
                else:
                    r.ob(fn, "call %s line %s with %s held: callee chain does not re-acquire"
                         % (g.name, fn.line_of(*pos), ",".join(sorted(heldp.values()))))
        # direct double lock
        for pos, l, held, n in info.acquires:
            if l in held:
                ctx.fail(r, fn, "%s locked twice" % l[1], fn.line_of(*pos),
                         "mutex %s locked while already held in the same function" % "->".join(l[0]))


def rule_order(ctx):
    r = ctx.rule("C10.R3", "T7", "the lock-class acquisition graph (held -> acquired, through call chains and ops "
                 "slots) has no cycle", floor=20)
    S = summaries(ctx.prog)
    edges = defaultdict(dict)
    SAMECLASS_OK = {"nni_sock.s_mx": "nni_sock_device_hold style address-ordered nesting is not present; placeholder"}
    for fn, info in S.infos.items():
        for pos, l, held, n in info.acquires:
            for (hp, hcls) in held:
                if hcls != l[1]:
                    edges[hcls].setdefault(l[1], "%s:%s %s" % (fn.file, fn.line_of(*pos), fn.name))
        for pos, n, held in info.calls:
            if not held:
                continue
            for g in callees(ctx.prog, fn, n):
                for (cls, p), chain in S.acq.get(g, {}).items():
                    for (hp, hcls) in held:
                        if hcls != cls:
                            edges[hcls].setdefault(cls, "%s:%s %s > %s" % (fn.file, fn.line_of(*pos), fn.name,
                                                                             " > ".join(chain)))
    nodes = set(edges) | {b for a in edges.values() for b in a}
    for a in edges:
        for b in edges[a]:
            r.ob(None, "order %s -> %s (%s)" % (a, b, edges[a][b]))
    # all simple cycles over at most three classes (a 2-cycle is the classic
    # AB/BA inversion, a 3-cycle needs three threads); longer cycles are not
    # decided (DESIGN.md C10.R3)
    cyc2 = set()
    cyc3 = set()
    for a in edges:
        for b in edges[a]:
            if a in edges.get(b, {}):
                cyc2.add(tuple(sorted((a, b))))
            for c in edges.get(b, {}):
                if c != a and c != b and a in edges.get(c, {}):
                    k = min((a, b, c), (b, c, a), (c, a, b))
                    cyc3.add(k)
    for (a, b) in sorted(cyc2):
        ctx.fail(r, None, "cycle %s <-> %s" % (a, b), 0,
                 "lock order inversion: %s->%s at %s; %s->%s at %s" % (a, b, edges[a][b], b, a, edges[b][a]),
                 file="(lock graph)")
    for (a, b, c) in sorted(cyc3):
        if any(tuple(sorted(p)) in cyc2 for p in ((a, b), (b, c), (a, c))):
            continue  # already reported through its 2-cycle
        ctx.fail(r, None, "cycle %s" % " -> ".join(sorted((a, b, c))), 0,
                 "lock order cycle: %s->%s at %s; %s->%s at %s; %s->%s at %s"
                 % (a, b, edges[a][b], b, c, edges[b][c], c, a, edges[c][a]), file="(lock graph)")
    r.notes.append("%d lock classes, %d order edges" % (len(nodes), sum(len(v) for v in edges.values())))


def rule_under_lock(ctx):
    r = ctx.rule("C10.R4", "T7", "no inline completion (finish_sync / completions_run / task_exec) and no blocking "
                 "wait (aio_stop/wait/fini/free, task_wait/fini, thr_fini) is reached while a mutex is held", floor=300)
    S = summaries(ctx.prog)
    EXC = {}
    for fn, info in S.infos.items():
        for pos, n, held in info.calls:
            if not held:
                continue
            hcls = ",".join(sorted(c for _, c in held))
            targets = []
            if n.get("fn") in INLINE + BLOCKING:
                targets.append((n["fn"], (n["fn"],)))
            for g in callees(ctx.prog, fn, n):
                if g.name in BARRIER:
                    continue
                for e, chain in S.eff.get(g, {}).items():
                    if e in INLINE + BLOCKING:
                        targets.append((e, chain))
            if targets:
                e, chain = targets[0]
                ctx.fail(r, fn, "%s under %s via %s" % (e, hcls, n.get("fn") or "indirect"), fn.line_of(*pos),
                         "%s reached while holding %s: %s" % (e, hcls, " > ".join(chain)))
            else:
                r.ob(fn, "call %s line %s under %s: no inline completion / blocking wait reachable"
                     % (n.get("fn") or show(n)[:40], fn.line_of(*pos), hcls))


def run(ctx):
    rule_pairing(ctx)
    rule_reentry(ctx)
    rule_order(ctx)
    rule_under_lock(ctx)
