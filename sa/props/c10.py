"""C10 -- close always terminates, completes everything, invalidates handles."""
from collections import defaultdict
from ..core import show, apath, last_field, AnalysisBroken, walk
from ..locks import lockinfo, Summaries, callees, LOCK, UNLOCK, BARRIER

EXPLANATION = ("C10: structural conditions for terminating teardown: no lock re-entry and no lock-order cycle on any "
               "call chain, every mutex released on every exit, no inline completion or blocking wait under a provider "
               "lock, hold/release pairing of object references on every path, aio field completeness "
               "(close/stop/fini slots), teardown ordering in pipe_reap / sock_shutdown, handle validity guards."
               " Also: references taken with find/hold/create are released or consumed on every path and never released before they were taken (R1); close functions examine every parked operation on every path (R5); a conditional wake counts only if its guard is established for the waiter (R9).")
EXPLANATION += " Round 3: the wake that lets a closer go is the releasing thread's last touch of what the closer finalizes (R7); a refused hold is not followed by a release (R1); an unlinked waiter is not dropped (R10); nothing is parked after close unless a late drain or a closed test covers it (R11)."
EXPLANATION += " Round 8: a function that walks a counted array and releases its elements ends the object's life or sets the count (R17)."
EXPLANATION += ' Round 6: the cancel mark of an operation stays until it completes (R14 = C02.A14); the lost-wake-up rule no longer exempts ws_stop (the exemption hid a genuine hang).'

INLINE = ("nni_aio_finish_sync", "nni_aio_completions_run", "nni_task_exec")
BLOCKING = ("nni_aio_stop", "nni_aio_wait", "nni_task_wait", "nni_thr_fini", "nni_thr_wait", "nni_aio_fini",
            "nni_aio_free", "nni_task_fini")
_sum = {}


def summaries(prog):
    if id(prog) not in _sum:
        _sum[id(prog)] = Summaries(prog, INLINE + BLOCKING + ("nni_cv_wait", "nni_cv_until"))
    return _sum[id(prog)]


def rule_pairing(ctx):
    r = ctx.rule("C10.L0", "T4", "every nni_mtx_lock is released on every path to the function's exit "
                 "(and no unlock without a matching lock)", floor=400)
    WRAPPERS = {}
    for fn in ctx.prog.functions:
        info = lockinfo(fn)
        ncalls = sum(1 for _ in fn.calls())
        if ncalls == 1 and len(info.acquires) + len(info.entry_unlocks) == 1 and fn.name in ("nng_mtx_lock", "nng_mtx_unlock"):
            r.exception(fn.name, "public mutex API wrapper: locking/unlocking the user's mutex is the function's contract")
            continue
        if info.truncated:
            raise AnalysisBroken("lockset simulation truncated in %s" % fn.name)
        bad = {}
        for (l, via) in info.exit_held:
            bad.setdefault(l, via)
        for pos, l, held, n in info.acquires:
            if l in bad:
                continue
            r.ob(fn, "lock %s line %s released on all exits" % ("->".join(l[0]), fn.line_of(*pos)))
        for l, via in bad.items():
            ctx.fail(r, fn, "lock %s held at exit" % l[1], fn.line_of(via, 0),
                     "mutex %s (%s) is still held on a path to the exit through line %s"
                     % ("->".join(l[0]), l[1], fn.line_of(via, len(fn.blocks[via].elems))))
        for l in info.entry_unlocks:
            ctx.fail(r, fn, "unlock %s not held" % l[1], fn.line,
                     "mutex %s (%s) is unlocked on a path where this function does not hold it" % ("->".join(l[0]), l[1]))


def rule_reentry(ctx):
    r = ctx.rule("C10.R2", "T7", "no call chain acquires a lock instance the caller already holds "
                 "(instances tracked through parameters and single-definition locals)", floor=300)
    S = summaries(ctx.prog)
    for fn, info in S.infos.items():
        for pos, n, held in info.calls:
            if not held:
                continue
            heldp = {p: cls for (p, cls) in held}
            for g in callees(ctx.prog, fn, n):
                hit = None
                for (cls, p), chain in S.acq.get(g, {}).items():
                    mp = S._map_path(g, p, info, n) if n.get("fn") else None
                    if mp is not None and mp in heldp:
                        hit = (cls, mp, chain)
                        break
                if hit:
                    cls, mp, chain = hit
                    ctx.fail(r, fn, "%s re-locked via %s" % (cls, g.name), fn.line_of(*pos),
                             "mutex %s is held here and acquired again through %s"
                             % ("->".join(mp), " > ".join(chain)))
                else:
                    r.ob(fn, "call %s line %s with %s held: callee chain does not re-acquire"
                         % (g.name, fn.line_of(*pos), ",".join(sorted(heldp.values()))))
        # direct double lock
        for pos, l, held, n in info.acquires:
            if l in held:
                ctx.fail(r, fn, "%s locked twice" % l[1], fn.line_of(*pos),
                         "mutex %s locked while already held in the same function" % "->".join(l[0]))


def rule_order(ctx):
    r = ctx.rule("C10.R3", "T7", "the lock-class acquisition graph (held -> acquired, through call chains and ops "
                 "slots) has no cycle", floor=20)
    S = summaries(ctx.prog)
    edges = defaultdict(dict)
    SAMECLASS_OK = {"nni_sock.s_mx": "nni_sock_device_hold style address-ordered nesting is not present; placeholder"}
    for fn, info in S.infos.items():
        for pos, l, held, n in info.acquires:
            for (hp, hcls) in held:
                if hcls != l[1]:
                    edges[hcls].setdefault(l[1], "%s:%s %s" % (fn.file, fn.line_of(*pos), fn.name))
        for pos, n, held in info.calls:
            if not held:
                continue
            for g in callees(ctx.prog, fn, n):
                for (cls, p), chain in S.acq.get(g, {}).items():
                    for (hp, hcls) in held:
                        if hcls != cls:
                            edges[hcls].setdefault(cls, "%s:%s %s > %s" % (fn.file, fn.line_of(*pos), fn.name,
                                                                             " > ".join(chain)))
    nodes = set(edges) | {b for a in edges.values() for b in a}
    for a in edges:
        for b in edges[a]:
            r.ob(None, "order %s -> %s (%s)" % (a, b, edges[a][b]))
    # all simple cycles over at most three classes (a 2-cycle is the classic
    # AB/BA inversion, a 3-cycle needs three threads); longer cycles are not
    # decided (DESIGN.md C10.R3)
    cyc2 = set()
    cyc3 = set()
    for a in edges:
        for b in edges[a]:
            if a in edges.get(b, {}):
                cyc2.add(tuple(sorted((a, b))))
            for c in edges.get(b, {}):
                if c != a and c != b and a in edges.get(c, {}):
                    k = min((a, b, c), (b, c, a), (c, a, b))
                    cyc3.add(k)
    for (a, b) in sorted(cyc2):
        ctx.fail(r, None, "cycle %s <-> %s" % (a, b), 0,
                 "lock order inversion: %s->%s at %s; %s->%s at %s" % (a, b, edges[a][b], b, a, edges[b][a]),
                 file="(lock graph)")
    for (a, b, c) in sorted(cyc3):
        if any(tuple(sorted(p)) in cyc2 for p in ((a, b), (b, c), (a, c))):
            continue  # already reported through its 2-cycle
        ctx.fail(r, None, "cycle %s" % " -> ".join(sorted((a, b, c))), 0,
                 "lock order cycle: %s->%s at %s; %s->%s at %s; %s->%s at %s"
                 % (a, b, edges[a][b], b, c, edges[b][c], c, a, edges[c][a]), file="(lock graph)")
    r.notes.append("%d lock classes, %d order edges" % (len(nodes), sum(len(v) for v in edges.values())))


def rule_under_lock(ctx):
    r = ctx.rule("C10.R4", "T7", "no inline completion (finish_sync / completions_run / task_exec) and no blocking "
                 "wait (aio_stop/wait/fini/free, task_wait/fini, thr_fini) is reached while a mutex is held", floor=300)
    S = summaries(ctx.prog)
    EXC = {}
    for fn, info in S.infos.items():
        for pos, n, held in info.calls:
            if not held:
                continue
            hcls = ",".join(sorted(c for _, c in held))
            targets = []
            if n.get("fn") in INLINE + BLOCKING:
                targets.append((n["fn"], (n["fn"],)))
            for g in callees(ctx.prog, fn, n):
                if g.name in BARRIER:
                    continue
                for e, chain in S.eff.get(g, {}).items():
                    if e in INLINE + BLOCKING:
                        targets.append((e, chain))
            if targets:
                e, chain = targets[0]
                ctx.fail(r, fn, "%s under %s via %s" % (e, hcls, n.get("fn") or "indirect"), fn.line_of(*pos),
                         "%s reached while holding %s: %s" % (e, hcls, " > ".join(chain)))
            else:
                r.ob(fn, "call %s line %s under %s: no inline completion / blocking wait reachable"
                     % (n.get("fn") or show(n)[:40], fn.line_of(*pos), hcls))


# ---------------------------------------------------------------------------
# R15: a close that drains one wait list of an object drains all of them


def rule_drains_all(ctx):
    from .. import guards as G
    r = ctx.rule("C10.R15", "T2", "a close that drains one wait list of an object drains them all: where a function completes with "
                 "NNG_ECLOSED the operations parked on one aio list of a record, every path through it that finds that list empty "
                 "also finds empty every other list of the same record on which operations are parked (nni_list_first(..) == NULL "
                 "observed for each) -- a close that looks at the readers only when the queue is empty and at the writers only "
                 "otherwise leaves a sender blocked on a zero-capacity queue pending after nng_socket_close has returned", floor=3)
    prog = ctx.prog
    # aio lists per record: lists that some function parks an aio on
    parked = defaultdict(set)
    for f in prog.functions:
        if f.cfg_failed:
            continue
        for c in f.calls(PARK_CALLS):
            lf = last_field(f.expand(c.node["args"][0])) if c.node["args"] else None
            if lf and "." in lf:
                parked[lf.split(".")[0]].add(lf)
    n = 0
    for g in prog.functions:
        if g.cfg_failed or g.file.endswith("_test.c"):
            continue
        lists, fields, flags = drains(prog, g)
        lists = {l for l in lists if l and "." in l}
        if not lists:
            continue
        rec = sorted(lists)[0].split(".")[0]
        mine = {l for l in parked.get(rec, set())}
        if len(mine) < 2 or not (lists & mine):
            continue
        # edges on which a list is observed empty
        empty = defaultdict(set)
        for c in g.calls("nni_list_first"):
            lf = last_field(g.expand(c.node["args"][0])) if c.node["args"] else None
            if lf in mine:
                for b, (nz, z) in g.value_edges(c).items():
                    empty[lf].add((b, z))
        drained = [l for l in mine if empty.get(l)]
        if len(drained) < 2:
            continue          # this function is responsible for one list only (another function drains the others)
        n += 1
        bad = None
        for l1 in drained:
            for l2 in drained:
                if l1 == l2:
                    continue
                e2 = empty[l2]
                ok_edge = lambda b, k, e2=e2: (b, k) not in e2      # noqa: E731
                pre = g.reach((g.entry, 0), edge_ok=ok_edge)
                for (b, k) in empty[l1]:
                    if (b, len(g.blocks[b].elems)) in pre and g.blocks[b].succs[k] is not None:
                        if (g.exit, 0) in g.reach((g.blocks[b].succs[k], 0), edge_ok=ok_edge):
                            bad = (l1, l2)
        if bad:
            ctx.fail(r, g, "%s drained, %s not looked at" % bad, g.line,
                     "%s can return having emptied %s without ever finding %s empty: operations parked there stay pending after "
                     "the close" % (g.name, bad[0], bad[1]))
        else:
            r.ob(g, "every path that drains one of %s drains the others too" % ", ".join(sorted(drained)))
    if n < 3:
        raise AnalysisBroken("only %d close functions that drain several wait lists found" % n)


# ---------------------------------------------------------------------------
# R16: a negotiation that fails gives the creator's reference back


def rule_nego_release(ctx):
    from .. import guards as G
    r = ctx.rule("C10.R16", "T4", "a negotiation that fails gives the creator's reference back: a transport pipe is created with two "
                 "references (A.2), one of them the transport's own, held while the pipe negotiates or waits on the endpoint; in "
                 "the negotiation callbacks of the stream transports every nni_pipe_close of the failing pipe is followed on "
                 "every path by nni_pipe_rele on it -- the reaper releases only the other reference, so without this one the "
                 "pipe is never destroyed and its connection (a file descriptor) is never closed: one leaked descriptor per "
                 "peer that botches the handshake, until accept fails with EMFILE for everybody", floor=2)
    prog = ctx.prog
    n = 0
    for name, file in (("tcptran_pipe_nego_cb", "transport/tcp/tcp.c"), ("ipc_pipe_nego_cb", "transport/ipc/ipc.c"),
                       ("sfd_tran_pipe_nego_cb", "transport/socket/sockfd.c")):
        f = prog.need(name, file)
        closes = list(f.calls("nni_pipe_close"))
        if not closes:
            raise AnalysisBroken("%s no longer closes the failing pipe" % name)
        for c in closes:
            n += 1
            what = show(f.expand(c.node["args"][0]))
            rel = {(k.b, k.i) for k in f.calls("nni_pipe_rele") if k.node["args"] and show(f.expand(k.node["args"][0])) == what}
            off = G.must_pass(f, (c.b, c.i + 1), rel) if rel else (c.b, c.i)
            if off is None:
                r.ob(f, "nni_pipe_close(%s) at line %s is followed by nni_pipe_rele on every path" % (what, c.line))
            else:
                ctx.fail(r, f, "failing pipe closed but the creator's reference kept", c.line,
                         "%s closes %s after a failed negotiation (line %s) and can return without nni_pipe_rele(%s): the pipe "
                         "keeps one reference for ever, is never finalized, and its connection stays open" % (name, what, c.line, what))
    if n < 2:
        raise AnalysisBroken("only %d closes of a failing pipe found in the negotiation callbacks" % n)


def run(ctx):
    ctx.guard(rule_pairing)
    ctx.guard(rule_reentry)
    ctx.guard(rule_order)
    ctx.guard(rule_under_lock)


# ---------------------------------------------------------------------------
# R9: no lost wake-up -- every write that can end a condition-variable wait is followed by a wake on that cv

from ..core import const_of, is_null, truth_of, strip_addr   # noqa: E402
from .. import guards as G   # noqa: E402

LIST_REMOVE = ("nni_list_remove", "nni_list_node_remove", "nni_aio_list_remove")
LIST_ADD = ("nni_list_append", "nni_list_prepend", "nni_aio_list_append")


def cv_key(fn, a):
    a = fn.expand(a)
    lf = last_field(a)
    if lf:
        return lf
    a = strip_addr(a)
    if a is not None and a.get("k") == "var" and a.get("vk") in ("local",):
        # local alias of a condition variable: nni_cv *cv = &q->eq_cv;
        defs = []
        for s in fn.sites():
            if s.node.get("k") == "decls":
                for d in s.node["d"]:
                    if d["n"] == a["n"] and d.get("init") is not None:
                        defs.append(fn.expand(d["init"]))
        for t in fn.assigns():
            if t.node["lhs"].get("k") == "var" and t.node["lhs"]["n"] == a["n"]:
                defs.append(fn.expand(t.node["rhs"]))
        if len(defs) == 1 and last_field(defs[0]):
            return last_field(defs[0])
    if a is not None and a.get("k") == "var":
        return "%s:%s" % ("global" if a.get("vk") in ("global", "slocal") else fn.name, a["n"])
    return None


def polarities(fn, c, sign=1, depth=0):
    """[(record.field, polarity)] for the fields a boolean condition depends on monotonically: +1 when a larger / non-zero /
    non-empty value makes the condition true.  Handles !, &&, ||, comparisons with constants, nni_list_empty and plain
    truthiness, so `a > 1 || !empty(L)` and `!(a <= 1 && empty(L))` give the same answer."""
    out = []
    if c is None or depth > 10:
        return out
    k = c.get("k")
    if k == "un" and c.get("op") == "!":
        return polarities(fn, c["e"], -sign, depth + 1)
    if k == "bin" and c["op"] in ("&&", "||"):
        return polarities(fn, c["lhs"], sign, depth + 1) + polarities(fn, c["rhs"], sign, depth + 1)
    if k == "asg" and c.get("op") == "=":
        return polarities(fn, c["rhs"], sign, depth + 1)
    if k == "bin" and c["op"] in (">", ">=", "!=", "<", "<=", "=="):
        l, r_ = c["lhs"], c["rhs"]
        op = c["op"]
        if const_of(l) is not None and const_of(r_) is None:
            l, r_ = r_, l
            op = {">": "<", "<": ">", ">=": "<=", "<=": ">="}.get(op, op)
        if const_of(r_) is None:
            return out
        t = {">": 1, ">=": 1, "!=": 1, "<": -1, "<=": -1, "==": -1}[op]
        if op in ("!=", "==") and const_of(r_) != 0:
            return out
        return polarities_leaf(fn, l, sign * t)
    return polarities_leaf(fn, c, sign)


def polarities_leaf(fn, n, sign):
    if n is None:
        return []
    while n.get("k") == "cast":
        n = n["e"]
    if n.get("k") == "mem" and n.get("t") not in ("nni_list", "nni_cv", "nni_mtx"):
        lf = last_field(n)
        return [(lf, sign)] if lf else []
    if n.get("k") == "call" and n.get("fn") == "nni_list_empty" and n["args"]:
        lf = last_field(fn.expand(n["args"][0]))
        return [(lf, -sign)] if lf else []
    return []


def wait_conditions(prog):
    """[(fn, wait site, cv key, {field: polarity})]: polarity +1 means the waiter keeps
    waiting while the field is non-zero / non-empty / large, -1 while it is zero."""
    out = []
    for fn in prog.functions:
        if fn.name in ("nni_cv_wait", "nni_cv_until", "nng_cv_wait", "nng_cv_until"):
            continue
        for s in fn.calls(("nni_cv_wait", "nni_cv_until")):
            cv = cv_key(fn, s.node["args"][0])
            if cv is None:
                continue
            # the condition that directly controls the wait: climb from the wait's block through the pieces of
            # one while/if condition (short-circuit chain)
            fields = {}
            seenb = set()
            work = [(s.b, 0)]
            while work:
                cur, depth = work.pop()
                if cur in seenb or depth > 5:
                    continue
                seenb.add(cur)
                for pid in fn.blocks[cur].preds:
                    pb = fn.blocks[pid]
                    if not pb.term or len(pb.succs) != 2 or cur not in pb.succs:
                        # an empty forwarding block (loop body entry) is transparent
                        if len(pb.succs) == 1 and not [e for e in pb.elems if e is not None] and depth < 3:
                            work.append((pid, depth + 1))
                        continue
                    kind = pb.term.get("kind")
                    if kind not in ("WhileStmt", "IfStmt", "&&", "||", "ForStmt", "DoStmt"):
                        continue
                    c = fn.cond(pid)
                    if c is None:
                        continue
                    k = pb.succs.index(cur)          # edge towards the wait
                    for lf, t in polarities(fn, c):
                        fields[lf] = t if k == 0 else -t
                    nonref = [e for e in pb.elems if e is not None and e.get("k") != "ref"]
                    if kind in ("&&", "||") or len(nonref) <= 1:
                        work.append((pid, depth + 1))
            if fields:
                out.append((fn, s, cv, fields))
    return out


from .. import guards as G_  # noqa: E402

def releasing_writes(fn, fields, nodes):
    """[(pos, record.field, text)]: the stores of fn that move a waiter's condition towards 'stop waiting'."""
    writes = []
    for s in fn.sites():
        n = s.node
        k = n.get("k")
        if k == "un" and n.get("op") in ("--", "++") and n["e"].get("k") == "mem":
            lf = last_field(n["e"])
            if lf in fields and ((n["op"] == "--") == (fields[lf] > 0)):
                writes.append(((s.b, s.i), lf, show(n)))
        elif k == "asg" and n["lhs"].get("k") == "mem":
            lf = last_field(n["lhs"])
            if lf in fields:
                rhs = fn.expand(n["rhs"])
                if n.get("op") == "-=" and fields[lf] > 0:
                    writes.append(((s.b, s.i), lf, show(n)))
                elif n.get("op") == "=":
                    cv_ = const_of(rhs)
                    if cv_ is not None and ((cv_ == 0) == (fields[lf] > 0)):
                        writes.append(((s.b, s.i), lf, show(n)))
        elif k == "call" and n.get("fn") in LIST_REMOVE and n["args"]:
            a0 = fn.expand(n["args"][0])
            lf = last_field(a0)
            cands = [lf] if lf in fields else []
            if n["fn"] == "nni_list_node_remove" and lf:
                rec, fld = lf.split(".", 1)
                cands += [l for l in nodes.get((rec, fld), ()) if l in fields]
            for l in cands:
                if fields[l] > 0:
                    writes.append(((s.b, s.i), l, show(n)[:50]))
    return writes



def rule_wakeups(ctx):
    r = ctx.rule("C10.R9", "T2", "no lost wake-up: for every condition-variable wait loop, each write that can make its condition "
                 "false (decrement, list removal, flag change in the releasing direction) is accompanied, in the same critical "
                 "section, by a wake on that condition variable", floor=20)
    prog = ctx.prog
    from .c15 import node_lists
    nodes = node_lists(prog)
    waits = wait_conditions(prog)
    r.notes.append("%d wait loops: %s" % (len(waits), "; ".join("%s@%s waits on %s while %s" % (
        f.name, s.line, cv, ",".join("%s%s" % ("" if p > 0 else "!", k) for k, p in flds.items())) for f, s, cv, flds in waits)))
    if len(waits) < 8:
        raise AnalysisBroken("only %d condition-variable wait loops recognised" % len(waits))
    # Writers that do not need a wake, one named site each.
    EXC = {
        ("nni_task_dispatch", "nni_task.task_busy"): "task_busy is decremented again by nni_task_exec on the task thread, which wakes",
        ("sock_shutdown", "nni_socket.s_ctxs"): "runs once, in the first closer (s_closing latch at its entry), before that same thread "
                                                "waits in sock_close: no other thread can be waiting on s_close_cv yet",
        ("nni_posix_pfd_stop", "nni_posix_pfd.reaped"): "poll(2) back end: a pfd is stopped by its single owner; the branch that sets "
                                                          "reaped itself is taken by that same caller (poller thread or closed queue) "
                                                          "instead of the branch that waits, so no other thread can be waiting on this pfd",
    }
    for wf, ws, cv, fields in waits:
        for fn in prog.functions:
            if fn.cfg_failed:
                continue
            writes = releasing_writes(fn, fields, nodes)
            if not writes:
                continue
            wakes = {(s.b, s.i) for s in fn.calls(("nni_cv_wake", "nni_cv_wake1")) if cv_key(fn, s.node["args"][0]) == cv}
            for w in list(wakes):
                seenb = set()
                work = [(w[0], 0)]
                while work:
                    cur, depth = work.pop()
                    if cur in seenb or depth > 5:
                        continue
                    seenb.add(cur)
                    for pid in fn.blocks[cur].preds:
                        pb = fn.blocks[pid]
                        if pb.term and len(pb.succs) == 2 and pb.term.get("kind") in ("IfStmt", "&&", "||"):
                            # a wake under a condition is as good as a wake only if the condition cannot be false while
                            # this waiter waits: every field the guard needs set is either part of the waiter's own
                            # predicate or was stored by the waiter before it went to sleep
                            gc = fn.cond(pid)
                            k_to = pb.succs.index(cur) if cur in pb.succs else 0
                            valid = True
                            for lf, t in (polarities(fn, gc) if gc is not None else []):
                                need = t if k_to == 0 else -t
                                if lf in fields:
                                    continue
                                fld = lf.split(".", 1)[1]
                                pre = [x for x in G_.stores(wf, fld, value="nonnull" if need > 0 else "null")]
                                if not pre or not all(wf.dominated_by((ws.b, ws.i), blocked=lambda b, i, e, x=x: (b, i) == (x.b, x.i))
                                                      for x in pre[:1]):
                                    valid = False
                            if not valid:
                                continue
                            wakes.add((pid, max(len(pb.elems) - 1, 0)))
                            nonref = [e for e in pb.elems if e is not None and e.get("k") != "ref"]
                            if pb.term.get("kind") in ("&&", "||") or len(nonref) <= 1:
                                work.append((pid, depth + 1))
            locks = [(s.b, s.i + 1) for s in fn.calls(LOCK)] or [(fn.entry, 0)]

            def is_unlock(e):
                return any(m.get("k") == "call" and m.get("fn") == UNLOCK for m in walk(e))
            winfo = lockinfo(wf)
            wheld = set()
            for h in winfo.visits.get((ws.b, ws.i), []):
                wheld |= {c for _, c in h}
            finfo = lockinfo(fn)
            for pos, lf, txt in writes:
                fheld = set()
                for h in finfo.visits.get(pos, []):
                    fheld |= {c for _, c in h}
                if wheld and fheld and not (wheld & fheld):
                    continue      # same node/field name under a different monitor: another object family
                if fn is wf and (ws.b, ws.i) in fn.reach((pos[0], pos[1] + 1), blocked=lambda b, i, e: is_unlock(e)):
                    r.ob(fn, "%s line %s: the waiting thread itself re-checks the condition" % (txt, fn.line_of(*pos)))
                    continue
                before_free = any(pos in fn.reach(st, blocked=lambda b, i, e: (b, i) in wakes or is_unlock(e)) for st in locks)
                after = fn.reach((pos[0], pos[1] + 1), blocked=lambda b, i, e: (b, i) in wakes)
                # the writer "gets away" when it returns or goes to sleep itself without having woken the waiter;
                # a temporary unlock/relock inside the function is not the end of its obligation
                def sleeps(e):
                    return any(m.get("k") == "call" and m.get("fn") in ("nni_cv_wait", "nni_cv_until") for m in walk(e))
                leak = [(b, i) for (b, i) in after if (b, i) == (fn.exit, 0) or
                        (i < len(fn.blocks[b].elems) and fn.blocks[b].elems[i] is not None and sleeps(fn.blocks[b].elems[i]))]
                if not before_free or not leak:
                    r.ob(fn, "%s line %s: wake on %s in the same critical section" % (txt, fn.line_of(*pos), cv))
                elif (fn.name, lf) in EXC:
                    r.exception("%s %s" % (fn.name, lf), EXC[(fn.name, lf)])
                    r.ob(fn, "excepted")
                elif fn.name.endswith(("_init", "_create", "_alloc")):
                    r.ob(fn, "initialisation of %s (no waiter can exist yet)" % lf)
                else:
                    ctx.fail(r, fn, "%s without wake on %s" % (txt.replace(" ", ""), cv.split(".")[-1]), fn.line_of(*pos),
                             "%s can make the condition awaited at %s:%s (%s) false, but the critical section ends (line %s) "
                             "without nni_cv_wake on %s: a thread blocked there (e.g. in close) is never released"
                             % (txt, wf.name, ws.line, ",".join(fields), fn.line_of(*leak[0]), cv))


_run0 = run



# ---------------------------------------------------------------------------
# R1: references taken through the handle API are given back

REFS = {
    # acquire: (kind, index of the object argument, True if the argument is &var)
    "nni_sock_find": ("sock", 0, True), "nni_sock_hold": ("sock", 0, False),
    "nni_ctx_find": ("ctx", 0, True), "nni_ctx_open": ("ctx", 0, True),
    "nni_dialer_find": ("dialer", 0, True), "nni_dialer_hold": ("dialer", 0, False),
    "nni_dialer_create": ("dialer", 0, True), "nni_dialer_create_url": ("dialer", 0, True),
    "nni_listener_find": ("listener", 0, True), "nni_listener_hold": ("listener", 0, False),
    "nni_listener_create": ("listener", 0, True), "nni_listener_create_url": ("listener", 0, True),
    "nni_pipe_find": ("pipe", 0, True),
}
RELEASE = {
    "sock": ("nni_sock_rele", "nni_sock_close", "nni_sock_close_device"),
    "ctx": ("nni_ctx_rele", "nni_ctx_close"),
    "dialer": ("nni_dialer_rele", "nni_dialer_close"),
    "listener": ("nni_listener_rele", "nni_listener_close"),
    "pipe": ("nni_pipe_rele",),
}
# holds that answer NNG_ECLOSED instead of taking the reference when the object is already closed
FALLIBLE_HOLD = ("nni_dialer_hold", "nni_listener_hold")
# calls that keep the caller's hold on the socket when they succeed (the endpoint inherits it)
INHERIT = {"nni_dialer_create": 1, "nni_dialer_create_url": 1, "nni_listener_create": 1, "nni_listener_create_url": 1}


def rule_refs(ctx):
    from .. import guards as G
    r = ctx.rule("C10.R1", "T4", "reference pairing: a reference obtained with nni_X_find / nni_X_hold / nni_X_create / "
                 "nni_ctx_open is released (nni_X_rele), consumed (nni_X_close, or inherited by a successfully created "
                 "endpoint) or handed to the caller on every path from the successful acquisition to the function's exit",
                 floor=60)
    prog = ctx.prog
    # the consumers keep their contract: a close function gives back the caller's reference on every path (the callers
    # above are checked on the assumption that it does)
    for kind, names in RELEASE.items():
        for name in names:
            if not name.endswith(("_close", "_close_device")):
                continue
            g = next((x for x in prog.functions if x.name == name and not x.cfg_failed and x.params), None)
            if g is None:
                continue
            par = g.params[0]["n"]
            give = set()
            for c in g.calls():
                args = [g.expand(x) for x in c.node["args"] if x is not None]
                if any(x.get("k") == "var" and x["n"] == par for x in args) and (
                        c.node.get("fn") in RELEASE[kind] or (c.node.get("fn") or "").endswith(("_rele", "_reap")) or
                        (lambda h: h is not None and h.file == g.file and h is not g and any(
                            y.node.get("fn") in RELEASE[kind] or (y.node.get("fn") or "").endswith(("_rele", "_reap")) for y in h.calls()))(
                                prog.resolve(g, c.node["fn"]) if c.node.get("fn") else None)):
                    give.add((c.b, c.i))
            if give and g.dominated_by((g.exit, 0), blocked=lambda b, i, e: (b, i) in give):
                r.ob(g, "%s gives back the caller's reference on every path" % name)
            else:
                path = g.find_path((g.entry, 0), lambda bb, ii: (bb, ii) == (g.exit, 0), blocked=lambda bb, i, e: (bb, i) in give)
                ctx.fail(r, g, "%s can return without releasing the caller's reference" % name, g.line,
                         "%s is entered with a reference its caller obtained (find / hold) and must give it back; a path to its "
                         "exit does not: when two closers meet on one object the count never reaches zero, the object is never "
                         "reaped and its hold on the socket keeps nng_socket_close waiting forever" % name, g.path_lines(path))
    for f in prog.functions:
        if f.cfg_failed or f.name in REFS or f.file.endswith("_test.c"):
            continue
        for a in f.calls():
            spec = REFS.get(a.node.get("fn"))
            if not spec:
                continue
            kind, idx, byaddr = spec
            if idx >= len(a.node["args"]):
                continue
            arg = f.expand(a.node["args"][idx])
            if byaddr:
                if not (arg.get("k") == "un" and arg.get("op") == "&" and arg["e"].get("k") == "var"):
                    continue
                var = arg["e"]["n"]
            else:
                if arg.get("k") != "var":
                    if a.node["fn"] in FALLIBLE_HOLD and not f.value_edges(a):
                        # the view with temporaries propagated writes the object as the expression that produced it
                        key = show(arg)
                        rel_after = [c for c in f.calls(RELEASE[kind]) if (c.b, c.i) in f.reach((a.b, a.i + 1)) and any(
                            z is not None and show(f.expand(z)) == key for z in c.node["args"])]
                        if rel_after:
                            ctx.fail(r, f, "%s result ignored, then %s" % (a.node["fn"], rel_after[0].node["fn"]), a.line,
                                     "%s at line %s can be refused but its result is ignored; %s at line %s then releases a "
                                     "reference this function may not hold" % (a.node["fn"], a.line, rel_after[0].node["fn"], rel_after[0].line))
                    continue
                var = arg["n"]
            ve = f.value_edges(a)
            if a.node["fn"] in FALLIBLE_HOLD and not byaddr:
                # a hold whose answer is thrown away: the call is a statement of its own (in the view with helpers
                # inlined the tests inside the hold function must not be mistaken for tests of its result)
                used = any(m.get("k") == "ref" and (m.get("b"), m.get("i")) == (a.b, a.i) for b_ in f.blocks.values() for e_ in b_.elems
                           if e_ is not None for m in walk(e_))
                if a.node.get("_inlined") and not used:
                    ve = {}
            if not ve:
                if not byaddr and a.node["fn"] in FALLIBLE_HOLD:
                    # the hold can be refused (object already closing); with the answer thrown away, what follows gives
                    # back a reference that may never have been taken
                    rel_after = [c for c in f.calls(RELEASE[kind]) if (c.b, c.i) in f.reach((a.b, a.i + 1)) and any(
                        (lambda x: x is not None and x.get("k") == "var" and x["n"] == var)(f.expand(z)) for z in c.node["args"] if z is not None)]
                    if rel_after:
                        ctx.fail(r, f, "%s result ignored, then %s" % (a.node["fn"], rel_after[0].node["fn"]), a.line,
                                 "%s(%s) at line %s can be refused (the object is being closed by another thread) but its result "
                                 "is ignored; %s(%s) at line %s then releases a reference this function may not hold: the count "
                                 "drops under the other thread, which is still using the object when it is reaped"
                                 % (a.node["fn"], var, a.line, rel_after[0].node["fn"], var, rel_after[0].line))
                        continue
                # result discarded or returned directly: `return (nni_X_find(...))` hands the reference to the caller
                r.ob(f, "%s line %s: result handed to the caller" % (a.node["fn"], a.line))
                continue
            rel = set()
            cut = {}
            for c in f.calls():
                fnm = c.node.get("fn")
                args = [f.expand(x) for x in c.node["args"] if x is not None]
                uses = [i for i, x in enumerate(args) if x.get("k") == "var" and x["n"] == var]
                if fnm in RELEASE[kind] and uses:
                    rel.add((c.b, c.i))
                elif kind == "sock" and fnm in INHERIT and INHERIT[fnm] in uses:
                    for b, (nz, z) in f.value_edges(c).items():
                        cut[b] = z                       # success edge: the endpoint keeps the hold
                elif fnm in ("nni_list_append", "nni_list_prepend", "nni_reap") and uses:
                    rel.add((c.b, c.i))                  # parked in a longer-lived container that owns the reference
                elif fnm and uses:
                    # a file-local helper that releases the parameter it is given
                    h = prog.resolve(f, fnm)
                    if h is not None and h.file == f.file and not h.cfg_failed and h is not f:
                        for k in uses:
                            if k < len(h.params) and any(
                                    x.node.get("fn") in RELEASE[kind] and any(
                                        (lambda y: y is not None and y.get("k") == "var" and y["n"] == h.params[k]["n"])(h.expand(z))
                                        for z in x.node["args"] if z is not None) for x in h.calls()):
                                rel.add((c.b, c.i))
            # handing the object to the caller / storing it in a longer-lived place ends the obligation
            for t in f.assigns():
                rhs = f.expand(t.node["rhs"])
                if rhs is not None and rhs.get("k") == "var" and rhs["n"] == var and t.node["lhs"].get("k") != "var":
                    rel.add((t.b, t.i))
            for s_ in f.sites():
                if s_.node.get("k") == "ret" and s_.node.get("e") is not None:
                    e = f.expand(s_.node["e"])
                    if e.get("k") == "var" and e["n"] == var:
                        rel.add((s_.b, s_.i))
            # re-acquisition into the same variable ends this reference's scope only if it was released before
            # after a successful acquisition the variable is not NULL: `if (v != NULL) rele(v)` releases on every path
            for b, k in G.nz_edges(f, lambda n: n.get("k") == "var" and n["n"] == var).items():
                cut.setdefault(b, 1 - k)
            leak = None
            for b, (nz, z) in ve.items():
                tgt = f.blocks[b].succs[z]
                if tgt is None:
                    continue
                seen = f.reach((tgt, 0), blocked=lambda bb, i, e: (bb, i) in rel,
                               edge_ok=lambda bb, k: not (bb in cut and k == cut[bb]))
                if (f.exit, 0) in seen:
                    leak = (tgt, b)
            if leak:
                path = f.find_path((leak[0], 0), lambda bb, ii: (bb, ii) == (f.exit, 0), blocked=lambda bb, i, e: (bb, i) in rel,
                                   edge_ok=lambda bb, k: not (bb in cut and k == cut[bb]))
                ctx.fail(r, f, "%s reference of %s not released" % (kind, var), a.line,
                         "%s(%s) succeeded at line %s, but the function can return without %s on %s: the object can never "
                         "be closed completely (close waits for the reference count)"
                         % (a.node["fn"], var, a.line, "/".join(RELEASE[kind]), var), f.path_lines(path))
            else:
                r.ob(f, "%s line %s: %s released, consumed or handed on along every path" % (a.node["fn"], a.line, var))
            # a release must not be reachable with the variable still NULL (acquisition skipped)
            nulls = [p for p, x in G.var_defs(f, var) if x is not None and const_of(x) == 0]
            if nulls and byaddr:
                nonnull = G.nz_edges(f, lambda n: n.get("k") == "var" and n["n"] == var)
                acq = {(x.b, x.i) for x in f.calls() if x.node.get("fn") in REFS and any(
                    (lambda y: y is not None and y.get("k") == "un" and y["e"].get("k") == "var" and y["e"]["n"] == var)(f.expand(z))
                    for z in x.node["args"] if z is not None)}
                for c in f.calls(RELEASE[kind]):
                    args = [f.expand(x) for x in c.node["args"] if x is not None]
                    if not any(x.get("k") == "var" and x["n"] == var for x in args):
                        continue
                    for npos in nulls:
                        seen = f.reach((npos[0], npos[1] + 1), blocked=lambda bb, i, e: (bb, i) in acq,
                                       edge_ok=lambda bb, k: not (bb in nonnull and k == nonnull[bb]))
                        if (c.b, c.i) in seen:
                            ctx.fail(r, f, "%s(%s) reachable with %s still NULL" % (c.node["fn"], var, var), c.line,
                                     "%s is initialised to NULL and acquired only conditionally; %s(%s) at line %s is reachable on "
                                     "a path that skipped the acquisition and dereferences NULL" % (var, c.node["fn"], var, c.line))
                            break



# ---------------------------------------------------------------------------
# R7: once an object has left the set a closer waits for, its thread does not touch what the closer tears down

MTX_FINI = ("nni_mtx_fini",)
THR_JOIN = ("nni_thr_fini", "nni_thr_wait")


def _closure(prog, roots):
    seen = []
    work = list(roots)
    while work:
        g = work.pop()
        if g in seen or g.cfg_failed:
            continue
        seen.append(g)
        for c in g.calls():
            for h in callees(prog, g, c.node):
                if h not in seen:
                    work.append(h)
    return seen


def dying_locks(prog, wf, ws, depth=2):
    """Lock classes finalised by what the waiter goes on to do after its wait loop: the calls that follow the wait in
    wf, and the calls that follow the call to wf in its callers (two levels), closed over the call graph."""
    roots = []
    conts = [(wf, (ws.b, ws.i + 1))]
    level = [wf]
    for _ in range(depth):
        nxt = []
        for g in level:
            for (c, site) in prog.callers().get(g.name, []):
                if c.cfg_failed or prog.resolve(c, g.name) is not g:
                    continue
                conts.append((c, (site.b, site.i + 1)))
                nxt.append(c)
        level = nxt
    direct = {}
    for f, start in conts:
        seen = f.reach(start)
        for c in f.calls():
            if (c.b, c.i) in seen:
                if c.node.get("fn") in MTX_FINI and c.node["args"]:
                    lf = last_field(f.expand(c.node["args"][0]))
                    if lf:
                        direct.setdefault(lf, "%s:%s" % (f.name, c.line))
                for h in callees(prog, f, c.node):
                    if h not in roots:
                        roots.append(h)
    out = dict(direct)
    joined = set()
    for g in _closure(prog, roots):
        joins = [(c.b, c.i) for c in g.calls(THR_JOIN)]
        for c in g.calls(MTX_FINI):
            if c.node["args"]:
                lf = last_field(g.expand(c.node["args"][0]))
                if lf:
                    out.setdefault(lf, "%s:%s" % (g.name, c.line))
                    # the finalizer joins its worker threads (typically in a loop over them) before it gets here
                    if any((c.b, c.i) in g.reach((jb, ji + 1)) for (jb, ji) in joins):
                        joined.add(lf)
    return out, joined


def rule_last_touch(ctx):
    r = ctx.rule("C10.R7", "T7", "teardown order: the thread that performs the write a closer is waiting for (last reference dropped, "
                 "object taken off the list the closer drains) does not, after leaving that critical section, acquire a mutex "
                 "that the closer goes on to finalize -- the wake must be the releasing thread's last touch of the parent", floor=6)
    prog = ctx.prog
    from .c15 import node_lists
    nodes = node_lists(prog)
    S = summaries(prog)
    waits = wait_conditions(prog)
    gates = 0
    bodies = set()
    for f in prog.functions:
        for c in f.calls(("nni_thr_init", "nni_plat_thr_init")):
            for a in c.node["args"]:
                a = strip_addr(f.deref(a)) if a is not None else None
                if a is not None and a.get("k") == "fnref":
                    bodies.add(a["n"])
    EXC = {
        ("sock_shutdown", "nni_socket.s_ctxs"): "sock_shutdown runs on its caller's reference to the socket (nni_sock_shutdown and sock_close are "
                                                "entered with a hold from nni_sock_find); the closer at sock_close also waits for s_ref to drop to "
                                                "its own reference, so it cannot pass while this thread is still inside",
    }
    for wf, ws, cv, fields in waits:
        dying, joined = dying_locks(prog, wf, ws)
        if not dying:
            continue
        gates += 1
        r.notes.append("gate %s@%s (%s): closer finalizes %d lock classes" % (wf.name, ws.line, ",".join(fields), len(dying)))
        for fn in prog.functions:
            if fn.cfg_failed or fn is wf:
                continue
            writes = releasing_writes(fn, fields, nodes)
            if not writes:
                continue
            info = S.infos.get(fn) or lockinfo(fn)

            # the monitor of the gate: the lock class(es) the waiter holds at its wait
            winfo = lockinfo(wf)
            wcls = set()
            for h_ in winfo.visits.get((ws.b, ws.i), []):
                wcls |= {c_ for _, c_ in h_}

            def is_unlock(e, wcls=wcls):
                for m in walk(e):
                    if m.get("k") == "call" and m.get("fn") == UNLOCK and m["args"]:
                        cls = last_field(fn.expand(m["args"][0]))
                        if not wcls or cls is None or cls in wcls:
                            return True     # releasing another (nested) mutex does not end the gate's critical section
                return False
            for pos, lf, txt in writes:
                # end of the critical section that contains the write
                inside = fn.reach((pos[0], pos[1] + 1), blocked=lambda b, i, e: is_unlock(e))
                ends = set()
                for (b, i) in inside:
                    blk = fn.blocks[b]
                    if i < len(blk.elems):
                        continue
                for c in fn.calls(UNLOCK):
                    if not is_unlock(c.node):
                        continue
                    # an unlock element that stopped the walk: its predecessor position was visited
                    if (c.b, c.i) not in inside and ((c.b, c.i - 1) in inside or (c.i == 0 and any(
                            (pb, len(fn.blocks[pb].elems)) in inside for pb in fn.blocks[c.b].preds)) or (c.b, c.i) == (pos[0], pos[1] + 1)):
                        ends.add((c.b, c.i))
                if not ends:
                    r.ob(fn, "%s line %s: critical section ends with the function" % (txt, fn.line_of(*pos)))
                    continue
                # a later loop iteration works on another object: back edges are not followed
                dom = fn.dominators()
                after = set()
                for e in ends:
                    after |= fn.reach((e[0], e[1] + 1), edge_ok=lambda b, k: fn.blocks[b].succs[k] not in dom[b])
                hit = None
                live = {c for c in dying if not (fn.name in bodies and c in joined)}
                if (fn.name, lf) in EXC:
                    r.exception("%s %s" % (fn.name, lf), EXC[(fn.name, lf)])
                    r.ob(fn, "excepted")
                    continue
                for apos, (p, cls), held, n in info.acquires:
                    if apos in after and cls in live:
                        hit = (apos, cls, (fn.name,))
                        break
                if hit is None:
                    for cpos, n, held in info.calls:
                        if cpos not in after:
                            continue
                        for g in callees(prog, fn, n):
                            for (cls, p_), chain in S.acq.get(g, {}).items():
                                if cls in live:
                                    hit = (cpos, cls, (fn.name,) + chain)
                                    break
                            if hit:
                                break
                        if hit:
                            break
                if hit:
                    ctx.fail(r, fn, "%s acquired after releasing %s" % (hit[1], lf.split(".")[-1]), fn.line_of(*hit[0]),
                             "%s (line %s) lets the closer blocked at %s:%s proceed, and the closer goes on to finalize %s (%s); "
                             "after leaving that critical section this thread still acquires it through %s -- a use after free "
                             "when the closer wins the race" % (txt, fn.line_of(*pos), wf.name, ws.line, hit[1], dying[hit[1]],
                                                                " > ".join(hit[2])),
                             [fn.line_of(*pos)] + [fn.line_of(*e) for e in sorted(ends)][:1] + [fn.line_of(*hit[0])])
                else:
                    r.ob(fn, "%s line %s: nothing the closer of %s@%s finalizes is acquired afterwards"
                         % (txt, fn.line_of(*pos), wf.name, ws.line))
    if gates < 2:
        raise AnalysisBroken("only %d teardown gates (wait loops whose continuation finalizes a mutex) recognised" % gates)


# ---------------------------------------------------------------------------
# R10: a waiter that is unlinked is also completed

LIST_TAKE = ("nni_list_first", "nni_list_last", "nni_list_next", "nni_list_prev")


def parked_fields(prog):
    """record -> fields that hold parked operations: aio lists (nni_aio_list_init) and nni_aio* pointer fields"""
    out = defaultdict(set)
    for g in prog.functions:
        for c in g.calls("nni_aio_list_init"):
            lf = last_field(g.expand(c.node["args"][0])) if c.node["args"] else None
            if lf:
                rec, fld = lf.split(".", 1)
                out[rec].add(fld)
    for rn, rv in prog.records.items():
        for fld in rv.get("fields", ()):
            if (fld.get("t") or "").replace(" ", "") in ("nni_aio*", "nng_aio*", "structnng_aio*"):
                out[rn].add(fld["n"])
    return out


def rule_unlinked(ctx):
    r = ctx.rule("C10.R10", "T2", "close completes everything: a function that takes an object holding parked operations (a record "
                 "with an aio list or a parked-aio field) out of the list it was waiting on does something with it (reads a field, stores it, "
                 "hands it to another function) -- an object that is unlinked and then dropped on the floor leaves whatever it "
                 "was waiting with pending forever", floor=10)
    prog = ctx.prog
    parked = parked_fields(prog)
    n = 0
    for f in prog.functions:
        if f.cfg_failed:
            continue
        loc = f.locals()
        params = {p["n"] for p in f.params}
        for c in f.calls(("nni_list_remove",)):
            if len(c.node["args"]) < 2:
                continue
            v = f.expand(c.node["args"][1])
            if v is None or v.get("k") != "var" or v["n"] in params:
                continue
            d = loc.get(v["n"]) or {}
            rec = d.get("rec") or (v.get("t") or "").replace("*", "").replace("struct ", "").strip()
            if rec not in parked:
                continue
            # the element comes from a list traversal in this function
            taken = any(x is not None and x.get("k") == "call" and x.get("fn") in LIST_TAKE for _, x in G.var_defs(f, v["n"]))
            if not taken:
                continue
            n += 1
            used = None
            for t in f.sites():
                nd = t.node
                if nd.get("k") == "mem" and nd.get("b") is not None:
                    b = f.expand(nd["b"])
                    if b is not None and b.get("k") == "var" and b["n"] == v["n"]:
                        used = "%s->%s used (line %s)" % (v["n"], nd["f"], t.line)
                        break
                if nd.get("k") == "call" and not (nd.get("fn") or "").startswith("nni_list_"):
                    for a in nd["args"]:
                        a = f.expand(a) if a is not None else None
                        if a is not None and a.get("k") == "var" and a["n"] == v["n"]:
                            used = "%s handed to %s (line %s)" % (v["n"], nd.get("fn") or "a slot", t.line)
                            break
                    if used:
                        break
                if nd.get("k") == "asg" and nd["lhs"].get("k") != "var":
                    e = f.expand(nd["rhs"])
                    if e is not None and e.get("k") == "var" and e["n"] == v["n"]:
                        used = "%s stored (line %s)" % (v["n"], t.line)
                        break
                if nd.get("k") == "ret" and nd.get("e") is not None:
                    e = f.expand(nd["e"])
                    if e is not None and e.get("k") == "var" and e["n"] == v["n"]:
                        used = "%s returned (line %s)" % (v["n"], t.line)
                        break
            if used:
                r.ob(f, "%s unlinked at line %s: %s" % (v["n"], c.line, used))
            else:
                ctx.fail(r, f, "%s unlinked without looking at its parked operations" % v["n"], c.line,
                         "%s takes %s (a %s, which parks operations in %s) off %s at line %s but neither examines those "
                         "operations nor passes the object on: whatever it was waiting with is never completed"
                         % (f.name, v["n"], rec, "/".join(sorted(parked[rec])), show(c.node["args"][0]), c.line))
    if n < 10:
        raise AnalysisBroken("only %d unlink sites of objects with parked operations" % n)


# ---------------------------------------------------------------------------
# R11: nothing is parked on an object after its close has drained it

PARK_CALLS = ("nni_list_append", "nni_aio_list_append", "nni_list_prepend")


def _drained_params(prog, h):
    """indices of the list parameters that h empties, completing every element with NNG_ECLOSED"""
    from .. import guards as G
    names = [p_["n"] for p_ in h.params]
    out = set()
    fin = set()
    for c in h.calls(("nni_aio_finish_error", "nni_aio_abort", "nni_aio_finish")):
        a = [h.expand(x) if x is not None else None for x in c.node["args"]]
        if len(a) > 1 and a[1] is not None and a[1].get("k") == "enum" and a[1].get("n") == "NNG_ECLOSED" and \
                a[0] is not None and a[0].get("k") == "var":
            fin.add(a[0]["n"])
    for v in fin:
        for _, rhs in G.var_defs(h, v):
            for m in walk(rhs) if rhs is not None else ():
                if m.get("k") == "call" and m.get("fn") == "nni_list_first" and m.get("args"):
                    a0 = h.expand(m["args"][0])
                    if a0 is not None and a0.get("k") == "var" and a0["n"] in names:
                        out.add(names.index(a0["n"]))
    return out


def drains(prog, f, _depth=0):
    """(lists, fields, flags) of a function that completes parked operations with NNG_ECLOSED: the aio lists it empties, the
    parked-aio pointer fields it clears, and the boolean fields it sets (the 'closed' marks a later submitter could test)"""
    lists, fields, flags = set(), set(), set()
    closed_fin = []
    for c in f.calls(("nni_aio_finish_error", "nni_aio_abort", "nni_aio_finish")):
        a = [f.expand(x) if x is not None else None for x in c.node["args"]]
        if len(a) > 1 and a[1] is not None and a[1].get("k") == "enum" and a[1].get("n") == "NNG_ECLOSED":
            closed_fin.append(c)
    from .. import guards as G
    # a drain delegated to a file-local helper that empties the list it is given (http_abort_queue(&conn->wrq))
    if _depth == 0:
        for c in f.calls():
            h = prog.resolve(f, c.node["fn"]) if c.node.get("fn") else None
            if h is None or h is f or h.cfg_failed or not h.static or h.file != f.file:
                continue
            for idx in _drained_params(prog, h):
                if idx < len(c.node["args"]) and c.node["args"][idx] is not None:
                    lf = last_field(f.expand(c.node["args"][idx]))
                    if lf:
                        lists.add(lf)
    if not closed_fin:
        if lists:
            for t in f.assigns():
                l = t.node["lhs"]
                if l.get("k") == "mem" and (l.get("t") or "") in ("bool", "_Bool") and const_of(f.expand(t.node["rhs"])) not in (None, 0):
                    flags.add(last_field(l))
        return lists, fields, flags
    # a drain made under `if (x->closed)`: that flag is the mark
    for bid, k, atom, val in G.edge_facts(f):
        if val and atom.get("k") == "mem" and (atom.get("t") or "") in ("bool", "_Bool") and any(
                G.dominated(f, (c.b, c.i), {bid: k}) for c in closed_fin):
            flags.add(last_field(atom))
    # the lists it empties: v = nni_list_first(&x->L) where v is what gets completed with NNG_ECLOSED (a list of connections
    # or of other records that the same function merely looks at is not a list of parked operations)
    finished = set()
    for c in closed_fin:
        a0 = f.expand(c.node["args"][0]) if c.node["args"] else None
        while a0 is not None and a0.get("k") == "cast":
            a0 = f.expand(a0["e"])
        if a0 is not None and a0.get("k") == "var":
            finished.add(a0["n"])
    for v in finished:
        for _, rhs in G.var_defs(f, v):
            for m in walk(rhs) if rhs is not None else ():
                if m.get("k") == "call" and m.get("fn") == "nni_list_first" and m.get("args"):
                    lf = last_field(f.expand(m["args"][0]))
                    if lf:
                        lists.add(lf)
    for t in f.assigns():
        l = t.node["lhs"]
        if l.get("k") != "mem":
            continue
        if is_null(f.expand(t.node["rhs"])) and (l.get("t") or "").replace(" ", "") in ("nni_aio*", "nng_aio*", "structnng_aio*"):
            fields.add(last_field(l))
        if (l.get("t") or "") in ("bool", "_Bool") and const_of(f.expand(t.node["rhs"])) not in (None, 0):
            flags.add(last_field(l))
    return lists, fields, flags


def rule_no_park_after_close(ctx, rid="C10.R11", dirs=("/core/", "/sp/"), floor=20):
    from .. import guards as G
    r = ctx.rule(rid, "T2", "nothing is parked after close: where a close function completes with NNG_ECLOSED the operations parked on "
                 "a list or in a field of an object, every other function that parks an operation there first tests, under the "
                 "same lock, a flag that the close function set -- an operation submitted by another thread just after the drain "
                 "is otherwise parked for good: it never completes and (for the blocking calls) close waits for its reference", floor=floor)
    r.own_opinion = True      # the rule looks through file-local helpers itself (drains, guards in callers, serving helpers)
    prog = ctx.prog
    scope = [f for f in prog.functions if not f.cfg_failed and any(d in "/" + f.file for d in dirs)
             and not f.file.endswith("_test.c")]
    callers = prog.callers()
    byfile = defaultdict(list)
    for f in scope:
        byfile[f.file].append(f)
    n = 0
    done = set()
    # the closed marks of a file: boolean fields set by a function that completes operations with NNG_ECLOSED (or that
    # calls one of the same file)
    fileflags = defaultdict(set)
    for file, fs in byfile.items():
        dr = {f_.name for f_ in fs if any(
            (lambda a: len(a) > 1 and a[1] is not None and a[1].get("k") == "enum" and a[1].get("n") == "NNG_ECLOSED")(
                [f_.expand(x) if x is not None else None for x in c.node["args"]])
            for c in f_.calls(("nni_aio_finish_error", "nni_aio_abort", "nni_aio_finish")))}
        for f_ in fs:
            if f_.name in dr or any(c.node.get("fn") in dr for c in f_.calls()):
                for t in f_.assigns():
                    l = t.node["lhs"]
                    if l.get("k") == "mem" and (l.get("t") or "") in ("bool", "_Bool") and const_of(f_.expand(t.node["rhs"])) not in (None, 0):
                        fileflags[file].add(last_field(l))

    def reaches_fn(h, target, depth=0):
        for c in h.calls():
            if c.node.get("fn") == target.name:
                return True
            k = prog.resolve(h, c.node["fn"]) if c.node.get("fn") else None
            if depth < 2 and k is not None and k.file == h.file and k.static and not k.cfg_failed and k is not h and reaches_fn(k, target, depth + 1):
                return True
        return False
    # Drains that run when nobody can be inside the object any more: the fini slots (called after the last reference is
    # gone), and the sock_close slot if the core calls it again right before sock_fini.
    late_roots = []
    for slot in ("nni_proto_sock_ops.sock_fini", "nni_proto_ctx_ops.ctx_fini"):
        late_roots += prog.slot_fns(slot)
    for f in scope:
        ind = [(c, last_field(f.expand(c.node.get("ind"))) if c.node.get("ind") is not None else None) for c in f.calls() if not c.node.get("fn")]
        fin = [c for c, lf_ in ind if lf_ == "nni_proto_sock_ops.sock_fini"]
        clo = {(c.b, c.i) for c, lf_ in ind if lf_ == "nni_proto_sock_ops.sock_close"}
        if fin and clo and all(f.dominated_by((c.b, c.i), blocked=lambda b, i, e: (b, i) in clo) or
                               not f.dominated_by((c.b, c.i), blocked=lambda b, i, e: False) and False for c in fin):
            late_roots += prog.slot_fns("nni_proto_sock_ops.sock_close")
            r.notes.append("%s calls the sock_close slot again before sock_fini: socket-level drains also run after the last reference" % f.name)
    late = set()
    for root in late_roots:
        if root.cfg_failed:
            continue
        for k in [root] + [h for h in byfile[root.file] if h is not root and reaches_fn(root, h)]:
            ls, fs_, _ = drains(prog, k)
            late |= ls | fs_
    for g in scope:
        lists, fields, flags = drains(prog, g)
        if not lists and not fields:
            continue
        flags |= fileflags[g.file]
        # flags set by the slot function that calls this helper count too
        for (c, site) in callers.get(g.name, []):
            if c.file == g.file and not c.cfg_failed:
                flags |= drains(prog, c)[2] | {last_field(t.node["lhs"]) for t in c.assigns() if t.node["lhs"].get("k") == "mem" and
                                               (t.node["lhs"].get("t") or "") in ("bool", "_Bool") and const_of(c.expand(t.node["rhs"])) not in (None, 0)}

        def guarded(h, pos, depth=0):
            # every path to the park passes an edge on which a closed mark is known false (paths that contradict a
            # constant-only local flag such as `rv` are not paths)
            cut = {}
            for bid, k, atom, val in G.edge_facts(h):
                if atom.get("k") == "mem" and last_field(atom) in flags and not val:
                    cut[bid] = k
            if cut and pos not in G.reach_flags(h, (h.entry, 0), edge_ok=lambda b, k: not (b in cut and cut[b] == k)):
                return True
            if depth < 2 and h.static:
                cs = [(c, s_) for (c, s_) in callers.get(h.name, []) if c.file == h.file and not c.cfg_failed and prog.resolve(c, h.name) is h]
                return bool(cs) and all(guarded(c, (s_.b, s_.i), depth + 1) for c, s_ in cs)
            return False
        for h in byfile[g.file]:
            if h is g or h.name.endswith(("_init", "_fini")):
                continue
            parks = []
            for c in h.calls(PARK_CALLS):
                lf = last_field(h.expand(c.node["args"][0])) if c.node["args"] else None
                if lf in lists:
                    parks.append(((c.b, c.i), c.line, lf))
            for t in h.assigns():
                l = t.node["lhs"]
                if l.get("k") == "mem" and last_field(l) in fields and not is_null(h.expand(t.node["rhs"])):
                    # a record this function has just allocated is not yet visible to the close function: the park is
                    # where the record is published (a list append, checked above)
                    base = l
                    while base is not None and base.get("k") in ("mem", "un", "cast", "idx"):
                        base = h.expand(base.get("b") if base.get("k") in ("mem", "idx") else base.get("e"))
                    if base is not None and base.get("k") == "var":
                        rd = G.reaching_defs(h, base["n"], (t.b, t.i))
                        if rd and all(d is not None and any(m.get("k") == "call" and m.get("fn") in ("nni_zalloc", "nni_alloc")
                                                             for m in walk(d)) for _, d in rd):
                            continue
                    # an operation moved from one drained park place of the same object to another was parked before: if
                    # the close function had run it would have found it there
                    rv_ = h.expand(t.node["rhs"])
                    while rv_ is not None and rv_.get("k") == "cast":
                        rv_ = h.expand(rv_["e"])
                    if rv_ is not None and rv_.get("k") == "var":
                        rd = G.reaching_defs(h, rv_["n"], (t.b, t.i))
                        if rd and all(d is not None and any(
                                m.get("k") == "call" and m.get("fn") == "nni_list_first" and m.get("args") and
                                last_field(h.expand(m["args"][0])) in lists for m in walk(d)) for _, d in rd):
                            r.ob(h, "%s line %s: moved from a list that %s drains too (not a new submission)" % (last_field(l), t.line, g.name))
                            continue
                    parks.append(((t.b, t.i), t.line, last_field(l)))
            for pos, line, lf in parks:
                if (h.name, line, lf) in done:
                    continue
                done.add((h.name, line, lf))
                n += 1
                # parked and then handed straight to the function that drains when the object is closed
                def drains_when_closed(k, depth=0):
                    """helper k calls the draining function g where a closed mark is known to be set (if (x->closed) drain(x)),
                    or hands on to a helper that does -- reaching g only on some unrelated error path does not serve a closed
                    object"""
                    marks = {}
                    for bid, kk, atom, val in G.edge_facts(k):
                        if val and atom.get("k") == "mem" and last_field(atom) in flags:
                            marks[bid] = kk
                    for c2 in k.calls():
                        if c2.node.get("fn") == g.name and marks and G.dominated(k, (c2.b, c2.i), marks):
                            return True
                        k2 = prog.resolve(k, c2.node["fn"]) if c2.node.get("fn") else None
                        if depth < 1 and k2 is not None and k2.file == k.file and k2.static and not k2.cfg_failed and k2 is not k and \
                                k2 is not g and drains_when_closed(k2, depth + 1):
                            return True
                    return False
                served = {(c.b, c.i) for c in h.calls() if c.node.get("fn") == g.name or (
                    (lambda k: k is not None and k.file == h.file and k.static and not k.cfg_failed and k is not h and k is not g and
                     drains_when_closed(k))(prog.resolve(h, c.node["fn"]) if c.node.get("fn") else None))}
                if lf in late:
                    r.ob(h, "%s line %s: drained again when the last reference is gone (fini)" % (lf, line))
                elif guarded(h, pos):
                    r.ob(h, "%s line %s: parked only after the closed mark was tested" % (lf, line))
                elif served and (h.exit, 0) not in h.reach((pos[0], pos[1] + 1), blocked=lambda b, i, e: (b, i) in served or (
                        e is not None and any(m.get("k") == "call" and m.get("fn") == UNLOCK for m in walk(e)))):
                    r.ob(h, "%s line %s: parked, then %s (which drains a closed object) runs in the same critical section" % (lf, line, g.name))
                else:
                    ctx.fail(r, h, "%s parked without a closed test" % lf, line,
                             "%s parks an operation in %s at line %s without testing a flag set by %s, which completes everything "
                             "parked there with NNG_ECLOSED: an operation submitted just after that drain stays pending forever"
                             % (h.name, lf, line, g.name))
    if n < floor:
        raise AnalysisBroken("only %d park sites on drained lists found" % n)


# ---------------------------------------------------------------------------
# R8: a handle lookup takes its reference before the id-map lock is released


def rule_find_holds(ctx):
    r = ctx.rule("C10.R8", "T7", "handles stay valid or are refused: every nni_X_find looks the id up and takes the reference (count "
                 "increment / nni_refcnt_hold) inside one critical section, and hands the object out only on that path -- with "
                 "the reference taken after the unlock a concurrent close can free the object in between", floor=5)
    prog = ctx.prog
    n = 0
    for name in sorted(k for k, v in REFS.items() if k.endswith("_find")):
        cands = [f for f in prog.functions if f.name == name and not f.cfg_failed]
        if not cands:
            raise AnalysisBroken("%s not in the build" % name)
        f = cands[0]
        n += 1
        gets = [c for c in f.calls("nni_id_get")]
        if not gets:
            raise AnalysisBroken("%s no longer looks the id up with nni_id_get" % name)
        holds = []
        for t in f.sites():
            nd = t.node
            if nd.get("k") == "un" and nd.get("op") == "++" and nd["e"].get("k") == "mem" and "ref" in nd["e"].get("f", ""):
                holds.append((t.b, t.i))
            if nd.get("k") == "asg" and nd.get("op") == "+=" and nd["lhs"].get("k") == "mem" and "ref" in nd["lhs"].get("f", ""):
                holds.append((t.b, t.i))
            if nd.get("k") == "call" and nd.get("fn") in ("nni_refcnt_hold", "nni_pipe_hold", "nni_sock_hold"):
                holds.append((t.b, t.i))
        outs = [t for t in f.assigns() if t.node["lhs"].get("k") == "un" and t.node["lhs"].get("op") == "*"]

        def is_unlock(e):
            return e is not None and any(m.get("k") == "call" and m.get("fn") == UNLOCK for m in walk(e))
        bad = None
        if not holds:
            bad = "takes no reference"
        else:
            g = gets[0]
            inside = f.reach((g.b, g.i + 1), blocked=lambda b, i, e: is_unlock(e))
            if not any(h in inside for h in holds):
                bad = "takes the reference only after the id-map lock was released"
            elif not outs or not all(f.dominated_by((t.b, t.i), blocked=lambda b, i, e: (b, i) in holds) for t in outs):
                bad = "can hand the object out on a path that took no reference"
        if bad:
            ctx.fail(r, f, "%s %s" % (name, bad), f.line,
                     "%s %s: between the lookup and the reference a concurrent close can release the object, and the caller "
                     "then works on freed state instead of getting NNG_ECLOSED / NNG_ENOENT" % (name, bad))
        else:
            r.ob(f, "lookup and reference in one critical section; the object is handed out only with the reference")
    if n < 5:
        raise AnalysisBroken("only %d handle lookups found" % n)


# ---------------------------------------------------------------------------
# R12: admitted, then found closing: the object is retired, not merely released


def _retires(prog, g, lists, depth=0):
    """g, on every path to its exit, takes its argument off one of the lists or marks it closed (a store of true into a
    boolean field / an atomic swap to true), directly or through a callee that does"""
    if g is None or g.cfg_failed:
        return False
    marks = set()
    for c in g.calls():
        fnm = c.node.get("fn")
        if fnm in LIST_REMOVE and c.node["args"] and last_field(g.expand(c.node["args"][0])) in lists:
            marks.add((c.b, c.i))
        elif fnm in ("nni_atomic_swap_bool", "nni_atomic_set_bool") and len(c.node["args"]) > 1 and const_of(g.expand(c.node["args"][1])) not in (None, 0):
            marks.add((c.b, c.i))
        elif fnm and depth < 2:
            h = prog.resolve(g, fnm)
            if h is not None and h is not g and h.file == g.file and _retires(prog, h, lists, depth + 1):
                marks.add((c.b, c.i))
    for t in g.assigns():
        l = t.node["lhs"]
        if l.get("k") == "mem" and (l.get("t") or "") in ("bool", "_Bool") and const_of(g.expand(t.node["rhs"])) not in (None, 0):
            marks.add((t.b, t.i))
    return bool(marks) and g.dominated_by((g.exit, 0), blocked=lambda b, i, e: (b, i) in marks)


def rule_admitted_then_closing(ctx):
    from .. import guards as G
    r = ctx.rule("C10.R12", "T2", "admitted, then found closing: a function that has put a new object on a list a closer waits to see empty "
                 "and then finds the owner closing retires the object on that path (takes it off the list, or closes it so that "
                 "its last release does) -- a mere release of a never-closed object leaves it on the list and the closer "
                 "waits forever", floor=1)
    prog = ctx.prog
    waits = wait_conditions(prog)
    gate_lists = {}
    for wf, ws, cv, fields in waits:
        for lf, pol in fields.items():
            if pol > 0 and prog.records.get(lf.split(".")[0]) and any(
                    x["n"] == lf.split(".", 1)[1] and x.get("rec") == "nni_list" for x in prog.records[lf.split(".")[0]]["fields"]):
                gate_lists.setdefault(lf, (wf, ws))
    n = 0
    for lf, (wf, ws) in sorted(gate_lists.items()):
        owner = lf.split(".")[0]
        for f in prog.functions:
            if f.cfg_failed:
                continue
            for c in f.calls(LIST_ADD):
                if len(c.node["args"]) < 2 or last_field(f.expand(c.node["args"][0])) != lf:
                    continue
                obj = f.expand(c.node["args"][1])
                if obj is None or obj.get("k") != "var":
                    continue
                after = f.reach((c.b, c.i + 1))
                for bid, k, atom, val in G.edge_facts(f):
                    if not val or atom.get("k") != "mem" or (atom.get("t") or "") not in ("bool", "_Bool"):
                        continue
                    alf = last_field(atom) or ""
                    if alf.split(".")[0] != owner or (bid, len(f.blocks[bid].elems)) not in after:
                        continue
                    tgt = f.blocks[bid].succs[k]
                    if tgt is None:
                        continue
                    n += 1
                    region = f.reach((tgt, 0))
                    ok = None
                    sites = {}
                    for c2 in f.calls():
                        if (c2.b, c2.i) not in region:
                            continue
                        if not any((lambda a: a is not None and a.get("k") == "var" and a["n"] == obj["n"])(f.expand(a)) for a in c2.node["args"] if a is not None):
                            continue
                        fnm = c2.node.get("fn")
                        if fnm in LIST_REMOVE and last_field(f.expand(c2.node["args"][0])) == lf:
                            sites[(c2.b, c2.i)] = fnm
                        g = prog.resolve(f, fnm) if fnm else None
                        if g is not None and not c2.node.get("_inlined") and _retires(prog, g, {lf}):
                            sites[(c2.b, c2.i)] = fnm
                    # ... on every path from the edge to the function's exit (a removal under a condition is not enough)
                    if sites and (f.exit, 0) not in f.reach((tgt, 0), blocked=lambda b, i, e: (b, i) in sites):
                        ok = "/".join(sorted(set(sites.values())))
                    if ok:
                        r.ob(f, "%s admitted to %s, %s found set: retired by %s" % (obj["n"], lf, alf, ok))
                    else:
                        ctx.fail(r, f, "%s left on %s when %s is found set" % (obj["n"], lf.split(".")[1], alf.split(".")[1]), f.line_of(bid, 0),
                                 "%s appends %s to %s (line %s) and then finds %s set; on that path the object is neither taken off "
                                 "the list nor closed (a release of a never-closed object only drops the count): it stays on the "
                                 "list, and the closer waiting at %s:%s for the list to empty never returns"
                                 % (f.name, obj["n"], lf, c.line, alf, wf.name, ws.line))
    if n < 1:
        raise AnalysisBroken("no admit-then-check site found for the lists closers wait on")


# ---------------------------------------------------------------------------
# R13: a listed object's reference is dropped together with its list membership


def rule_release_listed(ctx):
    from .. import guards as G
    r = ctx.rule("C10.R13", "T4", "the reference that keeps a transport pipe alive while it waits on an endpoint list is dropped where the pipe "
                 "leaves that list: a function that walks such a list (NNI_LIST_FOREACH / nni_list_first) and releases the "
                 "elements' pipes takes them off the list too -- releasing a pipe that stays listed lets the path that later "
                 "unlinks it release it a second time (the pipe is destroyed inside its own callback and close never returns)",
                 floor=5)
    prog = ctx.prog
    n = 0
    for f in prog.functions:
        if f.cfg_failed or "/sp/transport/" not in "/" + f.file:
            continue
        for c in f.calls("nni_pipe_rele"):
            n += 1
            a = f.expand(c.node["args"][0]) if c.node["args"] else None
            root = a
            while root is not None and root.get("k") in ("mem", "cast", "un"):
                root = root.get("b") if root.get("k") == "mem" else root.get("e")
            if root is None or root.get("k") != "var" or root.get("vk") != "local":
                r.ob(f, "nni_pipe_rele line %s" % c.line)
                continue
            walked = [d for _, d in G.reaching_defs(f, root["n"], (c.b, c.i)) if d is not None and d.get("k") == "call" and
                      d.get("fn") in ("nni_list_first", "nni_list_next", "nni_list_last") and d["args"]]
            if not walked:
                r.ob(f, "nni_pipe_rele line %s: not an element of a list walk" % c.line)
                continue
            lists = {last_field(f.expand(d["args"][0])) for d in walked}
            unlinked = any((lambda args: any(x is not None and x.get("k") == "var" and x["n"] == root["n"] for x in args) or
                            any(x is not None and x.get("k") == "un" and x.get("op") == "&" and x["e"].get("k") == "mem" and
                                (lambda bb: bb is not None and bb.get("k") == "var" and bb["n"] == root["n"])(f.expand(x["e"].get("b"))) for x in args))(
                                    [f.expand(z) if z is not None else None for z in u.node["args"]])
                           for u in f.calls(("nni_list_remove", "nni_list_node_remove")))
            if unlinked:
                r.ob(f, "nni_pipe_rele line %s: %s is unlinked in the same function" % (c.line, root["n"]))
            else:
                ctx.fail(r, f, "pipe of a listed element released without unlinking it", c.line,
                         "%s walks %s and calls nni_pipe_rele(%s) at line %s while %s stays on the list: whoever unlinks it "
                         "later (the negotiation callback's error path, the match function) releases the same reference again"
                         % (f.name, ", ".join(sorted(x for x in lists if x)), show(a), c.line, root["n"]))
    if n < 5:
        raise AnalysisBroken("only %d nni_pipe_rele sites in the transports" % n)


def rule_closeall(ctx):
    """C10.R5: a close / fini function looks at every parked-operation field it handles on every path"""
    from .. import guards as G
    r = ctx.rule("C10.R5", "T2", "close completes everything: a protocol function that aborts the operations parked on a context or "
                 "socket (ctx_fini / sock_close slots and the *_ctx_close helpers they call) examines each parked-aio field it "
                 "handles on every path -- handling one pending operation must not skip the other", floor=4)
    prog = ctx.prog
    fns = []
    for slot in ("nni_proto_ctx_ops.ctx_fini", "nni_proto_sock_ops.sock_close"):
        for f in prog.slot_fns(slot):
            if f not in fns and not f.cfg_failed:
                fns.append(f)
            for c in f.calls():
                h = prog.resolve(f, c.node["fn"]) if c.node.get("fn") else None
                if h is not None and h.file == f.file and not h.cfg_failed and h.name.endswith(("_close", "_abort")) and h not in fns:
                    fns.append(h)
    n = 0
    for f in fns:
        # fields of aio-pointer type that this function reads and clears
        flds = {}
        for s in f.sites():
            nd = s.node
            if nd.get("k") == "mem" and (nd.get("t") or "").replace(" ", "") in ("nni_aio*", "nng_aio*", "structnng_aio*"):
                flds.setdefault(last_field(nd), []).append((s.b, s.i))
        handled = {lf: pos for lf, pos in flds.items()
                   if any(t.node["lhs"].get("k") == "mem" and last_field(t.node["lhs"]) == lf and is_null(f.expand(t.node["rhs"]))
                          for t in f.assigns())}
        if len(handled) < 2:
            continue
        for lf, pos in handled.items():
            n += 1
            if G.must_pass(f, (f.entry, 0), set(pos)):
                ctx.fail(r, f, "%s not examined on every path" % lf, f.line,
                         "%s aborts the operation parked in %s on some paths only: a path that handled another pending operation "
                         "returns without looking at it, so that operation never completes and close waits for it forever"
                         % (f.name, lf), G.path_lines(f, (f.entry, 0), (f.exit, 0), None, set(pos)))
            else:
                r.ob(f, "%s examined on every path" % lf)
    if n < 4:
        raise AnalysisBroken("only %d parked-aio fields in close functions" % n)


# ---------------------------------------------------------------------------
# R17: what a close releases, it releases once


def rule_release_once(ctx):
    r = ctx.rule("C10.R17", "T2", "what a close releases it releases once: a function that walks a counted array of an object "
                 "(for (i = 0; i < o->cnt; i++) release(o->arr[i])) either ends the object's life (it frees the object or the "
                 "array, or is the object's finalizer) or sets the count before it returns -- close and stop entry points run "
                 "the same function more than once (nng_*_close, then nng_*_stop), and a second walk releases descriptors / "
                 "blocks that by then belong to somebody else", floor=3)
    r.own_opinion = True
    import re
    REL = re.compile(r"(close|free|fini|rele|destroy|reap)")
    prog = ctx.prog
    finalizers = set()
    for slot, lst in prog.slots().items():
        if re.search(r"(fini|free|destroy|reap)", slot.split(".")[-1]):
            finalizers |= {name for name, g, fl in lst}
    for f in prog.functions:       # finalizers installed at run time: x->ops.sl_free = F, nni_refcnt_init(.., F), reap lists
        if f.cfg_failed:
            continue
        for t in f.assigns():
            rr = f.expand(t.node["rhs"])
            while rr is not None and rr.get("k") in ("un", "cast") and rr.get("op", "(cast)") in ("&", "(cast)", "()"):
                rr = rr.get("e")
            fld = last_field(f.deref(t.node["lhs"])) or ""
            if rr is not None and rr.get("k") == "fnref" and re.search(r"(fini|free|destroy|reap)", fld.split(".")[-1]):
                finalizers.add(rr["n"])
    n = 0
    seen_inst = set()
    for f in prog.functions:
        if f.cfg_failed or f.normalized:
            continue
        for s in f.calls():
            fn = s.node.get("fn") or ""
            if not REL.search(fn):
                continue
            for a in s.node["args"]:
                a = f.expand(a)
                for m in walk(a or {}):
                    if not (m.get("k") == "idx" and m["b"].get("k") == "mem" and m["i"].get("k") == "var"):
                        continue
                    arr, iv = m["b"], m["i"]["n"]
                    for b in f.blocks.values():
                        c = f.cond(b.id)
                        if c is None or c.get("k") != "bin" or c["op"] not in ("<", "!=", ">", "<=") or len(b.succs) != 2:
                            continue
                        lo, hi = c["lhs"], c["rhs"]
                        if c["op"] == ">":
                            lo, hi = hi, lo
                        if not (lo.get("k") == "var" and lo["n"] == iv and hi.get("k") == "mem" and hi.get("rec") == arr.get("rec")):
                            continue
                        if (s.b, s.i) not in f.reach((b.succs[0], 0)) if b.succs[0] is not None else True:
                            continue
                        key = (f.name, f.file, hi["f"], arr["f"])
                        if key in seen_inst:
                            continue
                        seen_inst.add(key)
                        n += 1
                        what = "%s: %s over %s[0 .. %s)" % (f.name, fn, show(arr), show(hi))
                        base = arr
                        while base.get("k") == "mem":
                            base = base["b"]
                        bn = base.get("n")
                        frees = [k for k in f.calls(("nni_free", "nni_free_struct")) if any(
                            (x.get("k") == "var" and x.get("n") == bn) or (x.get("k") == "mem" and x["f"] == arr["f"])
                            for x in walk(f.expand(k.node["args"][0]) or {}))]
                        if frees:
                            r.ob(f, what + ": the object / the array is freed here")
                            continue
                        if f.name in finalizers or re.search(r"_(fini|free|destroy|reap)$", f.name):
                            r.ob(f, what + ": the object's finalizer")
                            continue
                        sets = {(t.b, t.i) for t in f.assigns() if any(
                            x.get("k") == "mem" and x["f"] == hi["f"] and x.get("rec") == hi.get("rec") for x in [f.expand(t.node["lhs"])])}
                        out = b.succs[1]
                        if sets and out is not None and G.must_pass(f, (out, 0), sets) is None:
                            r.ob(f, what + ": the count is set before the function returns")
                        else:
                            ctx.fail(r, f, "%s released, %s left standing" % (arr["f"], hi["f"]), s.line,
                                     "%s releases %s[i] for i below %s (line %s) and returns with the count unchanged; it does "
                                     "not end the object's life, so the next call (close, then stop) releases the same elements "
                                     "again" % (f.name, show(arr), show(hi), s.line))
    if n < 3:
        raise AnalysisBroken("only %d release loops over a counted array found" % n)


def run(ctx):   # noqa: F811
    _run0(ctx)
    ctx.guard(rule_refs)
    ctx.guard(rule_closeall)
    ctx.guard(rule_last_touch)
    ctx.guard(rule_unlinked)
    ctx.guard(rule_no_park_after_close)
    ctx.guard(rule_find_holds)
    ctx.guard(rule_admitted_then_closing)
    ctx.guard(rule_release_listed)
    ctx.guard(rule_wakeups)
    ctx.guard(rule_drains_all)
    ctx.guard(rule_nego_release)
    ctx.guard(rule_release_once)
    from . import c02
    ctx.guard(c02.rule_a7)
    for rr in ctx.rules:
        if rr.id == "C02.A7":
            rr.id = "C10.R6"
    ctx.guard(c02.rule_a14)          # close can abort what is pending: the cancel mark stays until the operation completes
    for rr in ctx.rules:
        if rr.id == "C02.A14":
            rr.id = "C10.R14"
