"""Rule runner: obligations, violations, known findings, evidence, exit codes."""
import hashlib
import json
import os
import sys
import time

from .core import AnalysisBroken, Program
from . import extract

VERIF = os.path.dirname(os.path.dirname(os.path.abspath(__file__)))
EVID = os.environ.get("VERIF_EVIDENCE") or os.path.join(VERIF, "evidence")  # selftest redirects it
KNOWN = os.path.join(VERIF, "known_findings.json")


class Finding:
    def __init__(self, prop, rule, fn, construct, line, msg, path=None, file=None):
        self.prop = prop
        self.rule = rule
        self.file = file or (fn.file if fn is not None else "?")
        self.function = fn.name if hasattr(fn, "name") else (fn or "?")
        self.construct = construct  # stable signature, no line numbers
        self.line = line
        self.msg = msg
        self.path = path or []

    def key(self):
        return (self.prop, self.rule, self.file, self.function, self.construct)

    def as_dict(self):
        return {"property": self.prop, "rule": self.rule, "file": self.file,
                "function": self.function, "construct": self.construct,
                "line": self.line, "message": self.msg, "path_lines": self.path}

    def text(self):
        p = ""
        if self.path:
            p = " path(lines)=" + ">".join(str(x) for x in self.path[:14])
        return "%s:%s %s [%s] %s (%s)%s" % (self.file, self.line, self.function, self.rule, self.msg, self.construct, p)


class Rule:
    """One rule instance set.  `template` is the T-number of DESIGN.md."""

    def __init__(self, rid, template, desc, floor=0):
        self.id = rid
        self.template = template
        self.desc = desc
        self.floor = floor
        self.obligations = 0
        self.discharged = 0
        self.samples = []
        self.findings = []
        self.exceptions = []
        self.functions = set()
        self.notes = []
        self.broken = None
        self.own_opinion = False
        self.follows_values = False     # the rule tracks values through locals itself (see engine: second opinion)

    def ob(self, fn, what, ok=True):
        """Record one obligation (discharged unless ok is False)."""
        self.obligations += 1
        if ok:
            self.discharged += 1
        if fn is not None:
            self.functions.add(getattr(fn, "name", str(fn)))
        if len(self.samples) < 6:
            self.samples.append("%s: %s" % (getattr(fn, "name", fn), what))

    def exception(self, symbol, reason):
        self.exceptions.append({"symbol": symbol, "reason": reason})


class Ctx:
    def __init__(self, prop, prog, tier, config="default"):
        self.prop = prop
        self.prog = prog
        self.tier = tier
        self.config = config
        self.rules = []
        self.module_broken = []

    def rule(self, rid, template, desc, floor=0):
        r = Rule(rid, template, desc, floor)
        self.rules.append(r)
        return r

    def guard(self, rule_fn, *a, **kw):
        """run one rule; an AnalysisBroken inside it marks that rule (not the whole module) as undecided"""
        n0 = len(self.rules)
        try:
            return rule_fn(self, *a, **kw)
        except AnalysisBroken as e:
            if len(self.rules) > n0:
                self.rules[-1].broken = str(e)
            else:
                self.module_broken.append("%s: %s" % (getattr(rule_fn, "__name__", "rule"), e))
            return None

    def fail(self, rule, fn, construct, line, msg, path=None, file=None):
        f = Finding(self.prop, rule.id, fn, construct, line, msg, path, file)
        # one report per construct
        if any(x.key() == f.key() for x in rule.findings):
            return
        rule.findings.append(f)
        rule.obligations += 1
        if fn is not None:
            rule.functions.add(getattr(fn, "name", str(fn)))


_KIND_RE = None


def kind_of(construct):
    """construct signature with program identifiers and numbers removed: what sort of report it is"""
    import re
    global _KIND_RE
    if _KIND_RE is None:
        _KIND_RE = re.compile(r"[A-Za-z0-9_]*(?:_|->|\.|\(|\)|\[|\]|&|\*|#|@)[A-Za-z0-9_>\-\.\(\)\[\]&\*#@,]*|\b\d+\b|,")
    return " ".join(_KIND_RE.sub(" ", construct).split())


# rules of these templates track values through assignments and calls themselves (typestate, lockset); their verdict on the
# code as written stands and is not put to the normal forms
SEMANTIC_TEMPLATES = {"T5", "T6", "T7"}


def load_known():
    if not os.path.exists(KNOWN):
        return []
    with open(KNOWN) as fh:
        return json.load(fh)["findings"]


def run_property(prop_id, module, tier="quick", configs=None, replay=None):
    """Run all rules of a property; write evidence; return exit code."""
    t0 = time.time()
    seed = int(os.environ.get("VERIF_SEED", "0") or 0)
    configs = configs or (["default"] if tier == "quick" else ["default", "debug", "nostats", "poll"])
    all_rules = []
    broken = []
    units = 0
    nfunctions = 0
    cfgs_done = []
    for cfg in configs:
        try:
            facts = extract.extract(config=cfg)
        except extract.AnalysisBroken as e:
            broken.append("[%s] %s" % (cfg, e))
            continue
        prog = Program(facts)
        if cfg == configs[0]:
            units = facts["n_units"]
            nfunctions = len(prog.functions)

        def run_view(program, label):
            c = Ctx(prop_id, program, tier, cfg)
            err = None
            try:
                module.run(c)
            except AnalysisBroken as e:
                err = str(e)
            except Exception as e:  # a rule tripping over an unusual shape must not look like a pass
                if label == "as written":
                    raise
                err = "internal error on the normal form: %r" % (e,)
            for r in c.rules:
                for fd in r.findings:
                    fd.rule = r.id  # rules shared between properties are renamed by the borrowing module
            done = list(c.rules)
            incomplete = done.pop() if (err is not None and done) else None
            return c, err, done, incomplete

        if os.environ.get("VERIF_VIEW") == "norm":   # debugging aid: decide on the normal form only
            from . import normalize as NZ
            prog = Program(NZ.normalize(facts))
        ctx, err, done, incomplete = run_view(prog, "as written")

        def raw_ok(r):
            return r in done and r.obligations >= r.floor and not r.broken
        known_now = {(k["rule"], k["file"], k["function"], k["construct"]) for k in load_known()
                     if k["property"] == prop_id and k.get("status", "known") == "known"}
        suspicious = err is not None or ctx.module_broken or any(not raw_ok(r) for r in ctx.rules) or any(
            (f.rule, f.file, f.function, f.construct) not in known_now for r in ctx.rules for f in r.findings)
        final_rules = ctx.rules
        if suspicious and os.environ.get("VERIF_NO_NORMALIZE") != "1":
            why = [("%s below its floor or undecided" % r.id) for r in ctx.rules if not raw_ok(r)] + \
                  [("%s reported %d" % (r.id, len(r.findings))) for r in ctx.rules if r.findings] + ([err] if err else [])
            print("  [%s] second opinion on the normal forms (%s)" % (cfg, "; ".join(why)[:300]))
            # second opinion on the behaviour-preserving normal form (helpers inlined, temporaries propagated):
            # report only what both views of the same program agree on
            from . import normalize as NZ
            views = []      # [(label, {rule id: rule}) ...] for every normal form on which the module ran
            view_progs = {}
            for label, kw in (("temporaries propagated", dict(do_inline=False)),
                              ("helpers inlined", dict(do_copyprop=False)),
                              ("helpers inlined and temporaries propagated", dict())):
                try:
                    nprog = Program(NZ.normalize(facts, **kw))
                    view_progs[label] = nprog
                    nctx, nerr, ndone, nincomplete = run_view(nprog, "normal form")
                    views.append((label, {r.id: r for r in ndone if r.obligations >= r.floor and not r.broken},
                                  [r.id for r in nctx.rules]))
                except Exception as e:   # noqa: BLE001
                    views.append((label, {}, []))
            merged = []
            order = [r.id for r in ctx.rules]
            for _, _, ids in views:
                for rid in ids:
                    if rid not in order:
                        order.append(rid)
            rby = {r.id: r for r in ctx.rules}
            rescued_err = True
            for rid in order:
                r = rby.get(rid)
                alts = [(label, by[rid]) for label, by, _ in views if rid in by]
                if r is not None and raw_ok(r):
                    if r.findings and alts:
                        keep, dropped = [], 0
                        semantic = r.template in SEMANTIC_TEMPLATES or getattr(r, "follows_values", False)
                        for f in r.findings:
                            confirmed = True
                            if getattr(r, "own_opinion", False):
                                keep.append(f)       # the rule's anchors are all inside one function body: no view adds anything
                                continue
                            for vi, (_, n) in enumerate(alts):
                                vprog = view_progs.get(_)
                                vf = vprog.fn(f.function, f.file) if vprog is not None and f.function != "?" else None
                                if vf is not None and not vf.normalized:
                                    continue        # this view shows the function exactly as written: nothing to add
                                if semantic and (_ != "helpers inlined" or vf is None or not vf.inlined):
                                    # rules that follow values themselves (typestate, lockset) are only put to the view in
                                    # which helpers are inlined, and only for functions a helper was inlined into
                                    continue
                                if (f.function, kind_of(f.construct)) not in {(g.function, kind_of(g.construct)) for g in n.findings}:
                                    confirmed = False
                            if confirmed or (f.rule, f.file, f.function, f.construct) in known_now:
                                keep.append(f)
                            else:
                                dropped += 1
                        if dropped:
                            r.discharged += dropped
                            r.notes.append("%d report(s) on the code as written were not confirmed on every behaviour-preserving "
                                           "normal form (static helpers inlined / single-assignment temporaries propagated) and "
                                           "are not raised" % dropped)
                        r.findings = keep
                    merged.append(r)
                elif alts:
                    # the rule could not be decided on the code as written: use the normal forms; a report must be in all of them
                    label, n = alts[0]
                    if len(alts) > 1:
                        n.findings = [f for f in n.findings if all((f.function, kind_of(f.construct)) in
                                                                  {(g.function, kind_of(g.construct)) for g in m.findings}
                                                                  for _, m in alts[1:])]
                    n.notes.append("decided on a normal form (%s): the rule's anchors are not all in the function as written"
                                   % ", ".join(lb for lb, _ in alts))
                    merged.append(n)
                else:
                    rescued_err = False
                    if r is not None:
                        merged.append(r)
            nerr = None
            final_rules = merged
            if err is not None and not rescued_err:
                broken.append("[%s] %s" % (cfg, err))
            elif err is not None and nerr is not None:
                broken.append("[%s] %s" % (cfg, err))
        elif err is not None:
            broken.append("[%s] %s" % (cfg, err))
        ctx.rules = final_rules
        for m in ctx.module_broken:
            broken.append("[%s] %s" % (cfg, m))
        for r in ctx.rules:
            if r.broken:
                broken.append("[%s] rule %s: %s" % (cfg, r.id, r.broken))
            elif r.obligations < r.floor:
                broken.append("[%s] rule %s matched %d instances, floor is %d (anchor vanished or matcher broken)"
                              % (cfg, r.id, r.obligations, r.floor))
        all_rules.append((cfg, ctx.rules))
        cfgs_done.append(cfg)

    known = [k for k in load_known() if k["property"] == prop_id]
    known_keys = {(k["property"], k["rule"], k["file"], k["function"], k["construct"]): k
                  for k in known if k.get("status", "known") == "known"}
    violations = []
    known_hits = []
    seen = set()
    for cfg, rules in all_rules:
        for r in rules:
            for f in r.findings:
                if f.key() in seen:
                    continue
                seen.add(f.key())
                if f.key() in known_keys:
                    known_hits.append(f)
                else:
                    violations.append(f)

    # evidence ---------------------------------------------------------------
    rules0 = all_rules[0][1] if all_rules else []
    tot_ob = sum(r.obligations for _, rs in all_rules for r in rs)
    tot_dis = sum(r.discharged for _, rs in all_rules for r in rs)
    samples = []
    for r in rules0:
        for s in r.samples[:3]:
            samples.append("[%s] %s" % (r.id, s))
    distinct = sum(r.obligations for r in rules0)
    fnset = set()
    for r in rules0:
        fnset |= r.functions
    ev = {
        "property_id": prop_id,
        "tier": tier,
        "seed": seed,
        "level": "other",
        "coverage": {
            "explanation": getattr(module, "EXPLANATION", "") +
            " Static analysis only: every obligation is decided on the type-checked AST/CFG of /repo's"
            " current source extracted by nngfacts with the flags of the real build; nothing is executed.",
            "obligations": tot_ob,
            "discharged": tot_dis,
            "evaluations": max(tot_ob, 1),
            "distinct_nontrivial": distinct,
            "rule": "one obligation per rule instance (call site, function, field, table slot) found in the current source;"
                    " distinct by (rule, function, construct)",
            "samples": samples[:40] or ["(none)"],
            "exhaustive": True,
            "units_analysed": units,
            "functions_in_program": nfunctions,
            "functions_with_obligations": len(fnset),
            "configurations": cfgs_done,
            "rules": [{
                "config": cfg, "id": r.id, "template": r.template, "rule": r.desc,
                "obligations": r.obligations, "discharged": r.discharged, "floor": r.floor,
                "violations": [f.as_dict() for f in r.findings],
                "exceptions": r.exceptions, "notes": r.notes,
                "functions": sorted(r.functions)[:60],
            } for cfg, rs in all_rules for r in rs],
            "known_findings_matched": [f.as_dict() for f in known_hits],
            "analysis_broken": broken,
            "checker_cmd": "./check %s --tier %s" % (prop_id, tier),
            "trusted_base": ["clang 14 front end and CFG builder", "CMake-generated compile flags",
                             "frozen tables in /verif/sa (floors, exceptions), each with a reason"],
        },
        "assumptions": getattr(module, "ASSUMPTIONS", []) + [
            "necessary-condition rules only: value-level errors that keep the checked structure intact are not detected",
            "as-built configuration (%s); Windows/kqueue/TLS engines are outside the build" % ",".join(cfgs_done),
        ],
        "wall_s": round(time.time() - t0, 2),
        "violations": len(violations),
    }
    os.makedirs(EVID, exist_ok=True)
    with open(os.path.join(EVID, "%s.json" % prop_id), "w") as fh:
        json.dump(ev, fh, indent=1)

    # report -----------------------------------------------------------------
    for cfg, rs in all_rules:
        for r in rs:
            print("  [%s] %-10s %-4s obligations=%d discharged=%d floor=%d violations=%d"
                  % (cfg, r.id, r.template, r.obligations, r.discharged, r.floor, len(r.findings)))
    for f in known_hits:
        print("KNOWN-FINDING: property=%s %s" % (prop_id, f.text()))
    if broken:
        for b in broken:
            print("ANALYSIS-BROKEN: property=%s %s" % (prop_id, b))
    rc = 0
    if violations:
        os.makedirs(os.path.join(EVID, "replay"), exist_ok=True)
        for f in violations:
            h = hashlib.sha1(repr(f.key()).encode()).hexdigest()[:10]
            rp = os.path.join(EVID, "replay", "%s-%s.json" % (prop_id, h))
            with open(rp, "w") as fh:
                json.dump(f.as_dict(), fh, indent=1)
            print("  " + f.text())
            print("VIOLATION property=%s replay=%s" % (prop_id, rp))
        rc = 1
    elif broken:
        rc = 2
    print("%s %s: %d obligations, %d discharged, %d violations, %d known, %.1fs"
          % (prop_id, tier, tot_ob, tot_dis, len(violations), len(known_hits), time.time() - t0))
    return rc
