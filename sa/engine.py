"""Rule runner: obligations, violations, known findings, evidence, exit codes."""
import hashlib
import json
import os
import sys
import time

from .core import AnalysisBroken, Program
from . import extract

VERIF = os.path.dirname(os.path.dirname(os.path.abspath(__file__)))
EVID = os.environ.get("VERIF_EVIDENCE") or os.path.join(VERIF, "evidence")  # selftest redirects it
KNOWN = os.path.join(VERIF, "known_findings.json")


class Finding:
    def __init__(self, prop, rule, fn, construct, line, msg, path=None, file=None):
        self.prop = prop
        self.rule = rule
        self.file = file or (fn.file if fn is not None else "?")
        self.function = fn.name if hasattr(fn, "name") else (fn or "?")
        self.construct = construct  # stable signature, no line numbers
        self.line = line
        self.msg = msg
        self.path = path or []

    def key(self):
        return (self.prop, self.rule, self.file, self.function, self.construct)

    def as_dict(self):
        return {"property": self.prop, "rule": self.rule, "file": self.file,
                "function": self.function, "construct": self.construct,
                "line": self.line, "message": self.msg, "path_lines": self.path}

    def text(self):
        p = ""
        if self.path:
            p = " path(lines)=" + ">".join(str(x) for x in self.path[:14])
        return "%s:%s %s [%s] %s (%s)%s" % (self.file, self.line, self.function, self.rule, self.msg, self.construct, p)


class Rule:
    """One rule instance set.  `template` is the T-number of DESIGN.md."""

    def __init__(self, rid, template, desc, floor=0):
        self.id = rid
        self.template = template
        self.desc = desc
        self.floor = floor
        self.obligations = 0
        self.discharged = 0
        self.samples = []
        self.findings = []
        self.exceptions = []
        self.functions = set()
        self.notes = []

    def ob(self, fn, what, ok=True):
        """Record one obligation (discharged unless ok is False)."""
        self.obligations += 1
        if ok:
            self.discharged += 1
        if fn is not None:
            self.functions.add(getattr(fn, "name", str(fn)))
        if len(self.samples) < 6:
            self.samples.append("%s: %s" % (getattr(fn, "name", fn), what))

    def exception(self, symbol, reason):
        self.exceptions.append({"symbol": symbol, "reason": reason})


class Ctx:
    def __init__(self, prop, prog, tier, config="default"):
        self.prop = prop
        self.prog = prog
        self.tier = tier
        self.config = config
        self.rules = []

    def rule(self, rid, template, desc, floor=0):
        r = Rule(rid, template, desc, floor)
        self.rules.append(r)
        return r

    def fail(self, rule, fn, construct, line, msg, path=None, file=None):
        f = Finding(self.prop, rule.id, fn, construct, line, msg, path, file)
        # one report per construct
        if any(x.key() == f.key() for x in rule.findings):
            return
        rule.findings.append(f)
        rule.obligations += 1
        if fn is not None:
            rule.functions.add(getattr(fn, "name", str(fn)))


def load_known():
    if not os.path.exists(KNOWN):
        return []
    with open(KNOWN) as fh:
        return json.load(fh)["findings"]


def run_property(prop_id, module, tier="quick", configs=None, replay=None):
    """Run all rules of a property; write evidence; return exit code."""
    t0 = time.time()
    seed = int(os.environ.get("VERIF_SEED", "0") or 0)
    configs = configs or (["default"] if tier == "quick" else ["default", "debug", "nostats", "poll"])
    all_rules = []
    broken = []
    units = 0
    nfunctions = 0
    cfgs_done = []
    for cfg in configs:
        try:
            facts = extract.extract(config=cfg)
        except extract.AnalysisBroken as e:
            broken.append("[%s] %s" % (cfg, e))
            continue
        prog = Program(facts)
        if cfg == configs[0]:
            units = facts["n_units"]
            nfunctions = len(prog.functions)
        ctx = Ctx(prop_id, prog, tier, cfg)
        try:
            module.run(ctx)
        except AnalysisBroken as e:
            broken.append("[%s] %s" % (cfg, e))
        for r in ctx.rules:
            for fd in r.findings:
                fd.rule = r.id  # rules shared between properties are renamed by the borrowing module
            if r.obligations < r.floor:
                broken.append("[%s] rule %s matched %d instances, floor is %d (anchor vanished or matcher broken)"
                              % (cfg, r.id, r.obligations, r.floor))
        all_rules.append((cfg, ctx.rules))
        cfgs_done.append(cfg)

    known = [k for k in load_known() if k["property"] == prop_id]
    known_keys = {(k["property"], k["rule"], k["file"], k["function"], k["construct"]): k
                  for k in known if k.get("status", "known") == "known"}
    violations = []
    known_hits = []
    seen = set()
    for cfg, rules in all_rules:
        for r in rules:
            for f in r.findings:
                if f.key() in seen:
                    continue
                seen.add(f.key())
                if f.key() in known_keys:
                    known_hits.append(f)
                else:
                    violations.append(f)

    # evidence ---------------------------------------------------------------
    rules0 = all_rules[0][1] if all_rules else []
    tot_ob = sum(r.obligations for _, rs in all_rules for r in rs)
    tot_dis = sum(r.discharged for _, rs in all_rules for r in rs)
    samples = []
    for r in rules0:
        for s in r.samples[:3]:
            samples.append("[%s] %s" % (r.id, s))
    distinct = sum(r.obligations for r in rules0)
    fnset = set()
    for r in rules0:
        fnset |= r.functions
    ev = {
        "property_id": prop_id,
        "tier": tier,
        "seed": seed,
        "level": "other",
        "coverage": {
            "explanation": getattr(module, "EXPLANATION", "") +
            " Static analysis only: every obligation is decided on the type-checked AST/CFG of /repo's"
            " current source extracted by nngfacts with the flags of the real build; nothing is executed.",
            "obligations": tot_ob,
            "discharged": tot_dis,
            "evaluations": max(tot_ob, 1),
            "distinct_nontrivial": distinct,
            "rule": "one obligation per rule instance (call site, function, field, table slot) found in the current source;"
                    " distinct by (rule, function, construct)",
            "samples": samples[:40] or ["(none)"],
            "exhaustive": True,
            "units_analysed": units,
            "functions_in_program": nfunctions,
            "functions_with_obligations": len(fnset),
            "configurations": cfgs_done,
            "rules": [{
                "config": cfg, "id": r.id, "template": r.template, "rule": r.desc,
                "obligations": r.obligations, "discharged": r.discharged, "floor": r.floor,
                "violations": [f.as_dict() for f in r.findings],
                "exceptions": r.exceptions, "notes": r.notes,
                "functions": sorted(r.functions)[:60],
            } for cfg, rs in all_rules for r in rs],
            "known_findings_matched": [f.as_dict() for f in known_hits],
            "analysis_broken": broken,
            "checker_cmd": "./check %s --tier %s" % (prop_id, tier),
            "trusted_base": ["clang 14 front end and CFG builder", "CMake-generated compile flags",
                             "frozen tables in /verif/sa (floors, exceptions), each with a reason"],
        },
        "assumptions": getattr(module, "ASSUMPTIONS", []) + [
            "necessary-condition rules only: value-level errors that keep the checked structure intact are not detected",
            "as-built configuration (%s); Windows/kqueue/TLS engines are outside the build" % ",".join(cfgs_done),
        ],
        "wall_s": round(time.time() - t0, 2),
        "violations": len(violations),
    }
    os.makedirs(EVID, exist_ok=True)
    with open(os.path.join(EVID, "%s.json" % prop_id), "w") as fh:
        json.dump(ev, fh, indent=1)

    # report -----------------------------------------------------------------
    for cfg, rs in all_rules:
        for r in rs:
            print("  [%s] %-10s %-4s obligations=%d discharged=%d floor=%d violations=%d"
                  % (cfg, r.id, r.template, r.obligations, r.discharged, r.floor, len(r.findings)))
    for f in known_hits:
        print("KNOWN-FINDING: property=%s %s" % (prop_id, f.text()))
    if broken:
        for b in broken:
            print("ANALYSIS-BROKEN: property=%s %s" % (prop_id, b))
    rc = 0
    if violations:
        os.makedirs(os.path.join(EVID, "replay"), exist_ok=True)
        for f in violations:
            h = hashlib.sha1(repr(f.key()).encode()).hexdigest()[:10]
            rp = os.path.join(EVID, "replay", "%s-%s.json" % (prop_id, h))
            with open(rp, "w") as fh:
                json.dump(f.as_dict(), fh, indent=1)
            print("  " + f.text())
            print("VIOLATION property=%s replay=%s" % (prop_id, rp))
        rc = 1
    elif broken:
        rc = 2
    print("%s %s: %d obligations, %d discharged, %d violations, %d known, %.1fs"
          % (prop_id, tier, tot_ob, tot_dis, len(violations), len(known_hits), time.time() - t0))
    return rc
