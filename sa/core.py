"""Program representation over the facts emitted by nngfacts.

Everything here is structural: CFGs, expression trees with resolved callees
and field accesses, dominance / reachability at element granularity, branch
polarity, access paths.  No source text is ever consulted.
"""
import json
from collections import defaultdict, deque


class AnalysisBroken(Exception):
    """Anchor vanished, instance count below floor, parse failure -> exit 2."""


# ---------------------------------------------------------------------------
# expression helpers


def kids(n):
    """Direct sub-expressions of a node in evaluation order."""
    k = n.get("k")
    if k == "call":
        out = []
        if "ind" in n:
            out.append(n["ind"])
        out.extend(a for a in n["args"] if a is not None)
        return out
    if k == "mem":
        return [n["b"]]
    if k in ("un", "desig", "complit"):
        return [n["e"]] if n.get("e") is not None else []
    if k in ("bin",):
        return [n["lhs"], n["rhs"]]
    if k == "asg":
        return [n["rhs"], n["lhs"]]
    if k == "cond":
        return [n["c"], n["a"], n["b"]]
    if k == "idx":
        return [n["b"], n["i"]]
    if k == "sizeof":
        return []  # unevaluated operand
    if k == "decls":
        return [d["init"] for d in n["d"] if d.get("init") is not None]
    if k == "ret":
        return [n["e"]] if n.get("e") is not None else []
    if k == "init":
        return [v for v in n["fields"].values() if v is not None]
    if k == "initarr":
        return [v for v in n["elems"] if v is not None]
    if k == "other":
        return [c for c in n.get("ch", []) if c is not None]
    return []


def walk(n):
    """Post-order (evaluation order) walk; does not follow refs."""
    if n is None:
        return
    for c in kids(n):
        if c is not None:
            yield from walk(c)
    yield n


def walk_pre(n):
    if n is None:
        return
    yield n
    for c in kids(n):
        if c is not None:
            yield from walk_pre(c)


def is_null(n):
    return n is not None and n.get("k") == "int" and n.get("cv") == 0


def const_of(n):
    if n is None:
        return None
    cv = n.get("cv")
    if isinstance(cv, str):
        try:
            return int(cv)
        except ValueError:
            return None
    return cv


def strip_addr(n):
    """&x -> x, *x -> x (for naming objects)."""
    while n is not None and n.get("k") == "un" and n.get("op") in ("&", "*"):
        n = n["e"]
    return n


def apath(n):
    """Access path of an lvalue-ish expression as a tuple of strings:
    ('ctx', 'send_aio') for ctx->send_aio or &ctx->send_aio.  Array
    subscripts become '[]' (or '[k]' for constant k).  None when the
    expression is not a path."""
    out = []
    while n is not None:
        k = n.get("k")
        if k == "un" and n.get("op") in ("&", "*"):
            n = n["e"]
        elif k == "mem":
            out.append(n["f"])
            n = n["b"]
        elif k == "idx":
            c = const_of(n["i"])
            out.append("[%s]" % ("" if c is None else c))
            n = n["b"]
        elif k == "var":
            out.append(n["n"])
            return tuple(reversed(out))
        else:
            return None
    return None


def fpath(n):
    """Field path with record names: tuple of 'rec.field' steps (root var
    dropped) -- identifies *which field of which record type* is accessed,
    independent of the name of the local holding the object."""
    out = []
    while n is not None:
        k = n.get("k")
        if k == "un" and n.get("op") in ("&", "*"):
            n = n["e"]
        elif k == "mem":
            out.append("%s.%s" % (n.get("rec", "?"), n["f"]))
            n = n["b"]
        elif k == "idx":
            n = n["b"]
        elif k == "var":
            return tuple(reversed(out))
        else:
            return tuple(reversed(out)) if out else None
    return None


def last_field(n):
    """'rec.field' of the outermost member access of n (through & * [])."""
    while n is not None:
        k = n.get("k")
        if k == "un" and n.get("op") in ("&", "*"):
            n = n["e"]
        elif k == "idx":
            n = n["b"]
        elif k == "mem":
            return "%s.%s" % (n.get("rec", "?"), n["f"])
        else:
            return None
    return None


def show(n, depth=0):
    """Compact C-like rendering for reports."""
    if n is None:
        return "?"
    if depth > 12:
        return "..."
    k = n.get("k")
    d = depth + 1
    if k == "call":
        f = n.get("fn") or ("(*%s)" % show(n.get("ind"), d))
        return "%s(%s)" % (f, ", ".join(show(a, d) for a in n["args"]))
    if k == "mem":
        return "%s%s%s" % (show(n["b"], d), "->" if n.get("arrow") else ".", n["f"])
    if k == "var" or k == "fnref" or k == "enum":
        return n["n"].split("@")[0]
    if k == "int":
        if n.get("m") and n["m"][0] == "NULL":
            return "NULL"
        return str(n.get("cv"))
    if k == "str":
        return '"%s"' % n.get("v", "")[:30]
    if k == "un":
        if n.get("post"):
            return "%s%s" % (show(n["e"], d), n["op"])
        return "%s%s" % (n["op"], show(n["e"], d))
    if k in ("bin", "asg"):
        return "(%s %s %s)" % (show(n["lhs"], d), n["op"], show(n["rhs"], d))
    if k == "cond":
        return "(%s ? %s : %s)" % (show(n["c"], d), show(n["a"], d), show(n["b"], d))
    if k == "idx":
        return "%s[%s]" % (show(n["b"], d), show(n["i"], d))
    if k == "sizeof":
        return "sizeof(%s)" % (n.get("ty") or "")
    if k == "ret":
        return "return %s" % (show(n.get("e"), d) if n.get("e") else "")
    if k == "decls":
        return "; ".join("%s %s%s" % (x["t"], x["n"], (" = " + show(x["init"], d)) if x.get("init") else "")
                         for x in n["d"])
    if k == "ref":
        return "[B%d.%d]" % (n["b"], n["i"])
    return "<%s>" % k


def same_expr(a, b):
    """Structural equality ignoring line/macro annotations."""
    if a is None or b is None:
        return a is b
    if a.get("k") != b.get("k"):
        return False
    k = a["k"]
    if k == "var":
        return a["n"] == b["n"]
    if k in ("fnref", "enum"):
        return a["n"] == b["n"]
    if k == "int":
        return a.get("cv") == b.get("cv")
    if k == "str":
        return a.get("v") == b.get("v")
    if k == "mem":
        return a["f"] == b["f"] and same_expr(a["b"], b["b"])
    if k == "call":
        if a.get("fn") != b.get("fn") or len(a["args"]) != len(b["args"]):
            return False
        if "ind" in a and not same_expr(a.get("ind"), b.get("ind")):
            return False
        return all(same_expr(x, y) for x, y in zip(a["args"], b["args"]))
    if k == "un":
        return a["op"] == b["op"] and same_expr(a["e"], b["e"])
    if k in ("bin", "asg"):
        return a["op"] == b["op"] and same_expr(a["lhs"], b["lhs"]) and same_expr(a["rhs"], b["rhs"])
    if k == "idx":
        return same_expr(a["b"], b["b"]) and same_expr(a["i"], b["i"])
    if k == "sizeof":
        return a.get("ty") == b.get("ty")
    if k == "cond":
        return same_expr(a["c"], b["c"]) and same_expr(a["a"], b["a"]) and same_expr(a["b"], b["b"])
    return json.dumps(a, sort_keys=True) == json.dumps(b, sort_keys=True)


# ---------------------------------------------------------------------------


class Block:
    __slots__ = ("id", "elems", "succs", "preds", "term", "label", "noreturn")


class Site:
    """A position in a function: element idx of a block (idx == len(elems)
    designates the block's terminator / end)."""
    __slots__ = ("fn", "b", "i", "node")

    def __init__(self, fn, b, i, node):
        self.fn, self.b, self.i, self.node = fn, b, i, node

    @property
    def line(self):
        return self.fn.line_of(self.b, self.i, self.node)

    def __repr__(self):
        return "%s:%s %s" % (self.fn.file, self.line, self.fn.name)

    def key(self):
        return (self.b, self.i)


class Function:
    def __init__(self, d, prog):
        self.prog = prog
        self.name = d["name"]
        self.file = d["file"]
        self.line = d["line"]
        self.endline = d.get("endline", d["line"])
        self.static = d.get("static", False)
        self.ret = d.get("ret", "")
        self.params = d.get("params", [])
        self.cfg_failed = d.get("cfg_failed", False)
        self.normalized = bool(d.get("inlined") or d.get("copyprop"))   # differs from the function as written
        self.inlined = list(d.get("inlined") or [])
        self.blocks = {}
        self.entry = d.get("entry")
        self.exit = d.get("exit")
        for bd in d.get("blocks", []):
            b = Block()
            b.id = bd["id"]
            b.elems = bd["elems"]
            b.succs = bd["succs"]
            b.term = bd.get("term")
            b.label = bd.get("label")
            b.noreturn = bd.get("noreturn", False)
            b.preds = []
            self.blocks[b.id] = b
        self.threaded = self._thread_short_circuits()
        for b in self.blocks.values():
            for s in b.succs:
                if s is not None:
                    self.blocks[s].preds.append(b.id)
        cnt = 0
        for b in self.blocks.values():
            for e in b.elems:
                if e is None:
                    continue
                for n in walk_pre(e):
                    cnt += 1
                    n["_id"] = cnt
        self._expanded = {}
        self._dom = None
        self._sites = None
        self._locals = None

    def _thread_short_circuits(self):
        """`if (!(a && b))`, `x = a || b; if (x)`: the compiler's graph computes the logical value in a join block J that
        the short-circuit edge of a's block enters directly, and J then branches on an expression of that value.  On the
        short-circuit edge the value is known, so the edge is threaded to the successor J would choose, and in J
        (now reached only after b was evaluated) the logical value is b's.  Only when J computes nothing else."""
        n = 0
        for J in self.blocks.values():
            if not J.elems or not J.term or "cond" not in J.term or len(J.succs) != 2:
                continue
            e0 = J.elems[0]
            if not (e0 and e0.get("k") == "bin" and e0.get("op") in ("&&", "||")):
                continue
            lhs, rhs = e0.get("lhs"), e0.get("rhs")
            if not (lhs and rhs and lhs.get("k") == "ref" and rhs.get("k") == "ref"):
                continue
            if any(e is None or e.get("k") not in ("bin", "un", "ref", "int") for e in J.elems):
                continue
            if any(m.get("k") in ("call", "asg", "incdec") for e in J.elems for m in walk(e)):
                continue
            A = self.blocks.get(lhs["b"])
            if A is None or A is J or len(A.succs) != 2 or not A.term or lhs["i"] != len(A.elems) - 1:
                continue
            short = 1 if e0["op"] == "&&" else 0
            if A.succs[short] != J.id or A.succs[1 - short] == J.id:
                continue
            others = [b for b in self.blocks.values() if b is not A and J.id in b.succs]
            if not others:
                continue
            known = 0 if e0["op"] == "&&" else 1

            def ev(x, depth=0):
                if x is None or depth > 20:
                    return None
                k = x.get("k")
                if k == "ref":
                    if x["b"] != J.id:
                        return None
                    if x["i"] == 0:
                        return known
                    return ev(J.elems[x["i"]], depth + 1)
                if k == "int":
                    return x.get("cv")
                if k == "un" and x.get("op") == "!":
                    v = ev(x.get("e"), depth + 1)
                    return None if v is None else int(not v)
                if k == "un" and x.get("op") in ("()", "(cast)"):
                    return ev(x.get("e"), depth + 1)
                if k == "bin" and x.get("op") in ("==", "!="):
                    a, b = ev(x.get("lhs"), depth + 1), ev(x.get("rhs"), depth + 1)
                    if a is None or b is None:
                        return None
                    return int((a == b) == (x["op"] == "=="))
                if x is e0:
                    return known
                return None
            v = ev(J.term["cond"])
            if v is None:
                continue
            A.succs[short] = J.succs[0 if v else 1]
            J.elems[0] = dict(rhs, l=e0.get("l"))
            n += 1
        return n

    # -- expression access -------------------------------------------------
    def deref(self, n):
        """Follow a ref node to the element it designates (one level)."""
        while n is not None and n.get("k") == "ref":
            n = self.blocks[n["b"]].elems[n["i"]]
        return n

    def expand(self, n, depth=0):
        """Copy of n with every ref replaced by the referenced element's
        (expanded) tree.  Used for pattern matching on whole conditions."""
        if n is None:
            return None
        if depth > 40:
            return n
        if n.get("k") == "ref":
            key = (n["b"], n["i"])
            if key in self._expanded:
                return self._expanded[key]
            t = self.blocks[n["b"]].elems[n["i"]]
            r = self.expand(t, depth + 1)
            if r is not None and "l" not in r:
                r = dict(r)
            self._expanded[key] = r
            return r
        out = None
        for key in ("ind", "b", "e", "lhs", "rhs", "c", "a", "i", "init"):
            v = n.get(key)
            if isinstance(v, dict):
                nv = self.expand(v, depth + 1)
                if nv is not v:
                    if out is None:
                        out = dict(n)
                    out[key] = nv
        if "args" in n:
            na = [self.expand(a, depth + 1) if isinstance(a, dict) else a for a in n["args"]]
            if any(x is not y for x, y in zip(na, n["args"])):
                if out is None:
                    out = dict(n)
                out["args"] = na
        if n.get("k") == "decls":
            nd = []
            ch = False
            for d in n["d"]:
                if isinstance(d.get("init"), dict):
                    ni = self.expand(d["init"], depth + 1)
                    if ni is not d["init"]:
                        d = dict(d)
                        d["init"] = ni
                        ch = True
                nd.append(d)
            if ch:
                if out is None:
                    out = dict(n)
                out["d"] = nd
        if n.get("k") == "initarr":
            ne = [self.expand(a, depth + 1) if isinstance(a, dict) else a for a in n["elems"]]
            if any(x is not y for x, y in zip(ne, n["elems"])):
                if out is None:
                    out = dict(n)
                out["elems"] = ne
        if n.get("k") == "init":
            nf = {k2: self.expand(v, depth + 1) for k2, v in n["fields"].items()}
            if out is None:
                out = dict(n)
            out["fields"] = nf
        return out if out is not None else n

    def line_of(self, b, i, node=None):
        if node is not None and node.get("l"):
            return node["l"]
        blk = self.blocks[b]
        if i < len(blk.elems) and blk.elems[i] is not None:
            e = blk.elems[i]
            if e.get("l"):
                return e["l"]
            for x in walk_pre(e):
                if x.get("l"):
                    return x["l"]
        if blk.term and blk.term.get("l"):
            return blk.term["l"]
        # fall back to nearest earlier element
        for j in range(min(i, len(blk.elems)) - 1, -1, -1):
            e = blk.elems[j]
            if e is not None:
                for x in walk_pre(e):
                    if x.get("l"):
                        return x["l"]
        return self.line

    # -- sites -------------------------------------------------------------
    def sites(self):
        """All (block, idx, node) for every node of every element, in
        per-element evaluation order.  Nested nodes share the element's
        position."""
        if self._sites is None:
            out = []
            for b in self.blocks.values():
                for i, e in enumerate(b.elems):
                    if e is None:
                        continue
                    for n in walk(e):
                        out.append(Site(self, b.id, i, n))
            self._sites = out
        return self._sites

    def calls(self, name=None):
        """Call sites (each call exactly once: nested calls that are their
        own CFG element are reached through that element)."""
        for s in self.sites():
            n = s.node
            if n.get("k") == "call":
                if name is None or n.get("fn") == name or (isinstance(name, (set, frozenset, tuple, list)) and n.get("fn") in name):
                    yield s

    def assigns(self):
        for s in self.sites():
            if s.node.get("k") == "asg":
                yield s

    def locals(self):
        if self._locals is None:
            d = {}
            for p in self.params:
                d[p["n"]] = p
            for s in self.sites():
                if s.node.get("k") == "decls":
                    for v in s.node["d"]:
                        d[v["n"]] = v
            self._locals = d
        return self._locals

    def cond(self, bid):
        """Expanded branch condition of block bid (None if unconditional)."""
        b = self.blocks[bid]
        if not b.term or "cond" not in b.term:
            return None
        return self.expand(b.term["cond"])

    # -- graph algorithms at element granularity ---------------------------
    def reach(self, start, blocked=None, edge_ok=None, stop_at=None):
        """Forward reachability over element-level positions.
        start: (b, i) -- the position *after which* we start (i.e. we begin
        at element i).  blocked(b, i, elem) -> True stops traversal *before*
        executing that element.  edge_ok(b, k) filters successor k of block
        b.  Returns the set of visited (b, i) positions; (b, len) is the
        block end.  The exit block is reported as (exit, 0)."""
        seen = set()
        work = deque([start])
        while work:
            b, i = work.popleft()
            blk = self.blocks[b]
            while True:
                if (b, i) in seen:
                    break
                if i < len(blk.elems):
                    if blocked and blocked(b, i, blk.elems[i]):
                        break
                    seen.add((b, i))
                    i += 1
                    continue
                seen.add((b, i))
                for k, s in enumerate(blk.succs):
                    if s is None:
                        continue
                    if edge_ok and not edge_ok(b, k):
                        continue
                    work.append((s, 0))
                break
        return seen

    def reaches_exit(self, start, blocked=None, edge_ok=None):
        seen = self.reach(start, blocked, edge_ok)
        return (self.exit, 0) in seen

    def dominated_by(self, target, blocked=None, edge_ok=None):
        """True iff every entry->target path is cut by blocked/edge_ok, i.e.
        target is NOT reachable from entry once the given sites/edges are
        removed."""
        seen = self.reach((self.entry, 0), blocked, edge_ok)
        return target not in seen

    def find_path(self, start, goal_pred, blocked=None, edge_ok=None):
        """Shortest block path from start to a position satisfying
        goal_pred(b,i); returns list of (b,i) milestones or None."""
        prev = {start: None}
        work = deque([start])
        while work:
            cur = work.popleft()
            b, i = cur
            blk = self.blocks[b]
            if goal_pred(b, i):
                out = []
                while cur is not None:
                    out.append(cur)
                    cur = prev[cur]
                return list(reversed(out))
            if i < len(blk.elems):
                if blocked and blocked(b, i, blk.elems[i]):
                    continue
                nxt = [(b, i + 1)]
            else:
                nxt = []
                for k, s in enumerate(blk.succs):
                    if s is None or (edge_ok and not edge_ok(b, k)):
                        continue
                    nxt.append((s, 0))
            for n in nxt:
                if n not in prev:
                    prev[n] = cur
                    work.append(n)
        return None

    def path_lines(self, path):
        out = []
        for b, i in path or []:
            ln = self.line_of(b, i)
            if not out or out[-1] != ln:
                out.append(ln)
        return out

    def dominators(self):
        """Block-level dominator sets."""
        if self._dom is None:
            ids = list(self.blocks)
            dom = {b: set(ids) for b in ids}
            dom[self.entry] = {self.entry}
            changed = True
            order = self.rpo()
            while changed:
                changed = False
                for b in order:
                    if b == self.entry:
                        continue
                    ps = [p for p in self.blocks[b].preds if p in dom]
                    if ps:
                        new = set.intersection(*(dom[p] for p in ps)) | {b}
                    else:
                        new = {b}
                    if new != dom[b]:
                        dom[b] = new
                        changed = True
            self._dom = dom
        return self._dom

    def rpo(self):
        seen = set()
        order = []

        def dfs(b):
            stack = [(b, iter([s for s in self.blocks[b].succs if s is not None]))]
            seen.add(b)
            while stack:
                node, it = stack[-1]
                adv = False
                for s in it:
                    if s not in seen:
                        seen.add(s)
                        stack.append((s, iter([x for x in self.blocks[s].succs if x is not None])))
                        adv = True
                        break
                if not adv:
                    order.append(node)
                    stack.pop()

        dfs(self.entry)
        return list(reversed(order))

    def site_dominates(self, a, b):
        """Position a=(b,i) dominates position b."""
        if a[0] == b[0]:
            return a[1] <= b[1]
        return a[0] in self.dominators()[b[0]]

    def value_edges(self, site):
        """Blocks that branch on the value computed at `site` (directly, or
        through a local variable it is assigned to and that is not
        re-assigned in between).  Returns {block: (nonzero_succ_idx,
        zero_succ_idx)}."""
        nid = site.node.get("_id")
        out = {}

        def add(match, restrict=None):
            for b in self.blocks.values():
                if not b.term or len(b.succs) != 2:
                    continue
                c = self.cond(b.id)
                if c is None:
                    continue
                t = truth_of(c, match)
                if t and (restrict is None or (b.id, len(b.elems)) in restrict):
                    out[b.id] = (0, 1) if t > 0 else (1, 0)

        add(lambda n: n.get("_id") == nid)
        # through a local variable
        var = None
        top = self.blocks[site.b].elems[site.i]
        for n in walk(top):
            if n.get("k") == "asg" and n.get("op") == "=":
                r = self.deref(n["rhs"])
                if r is not None and r.get("_id") == nid and n["lhs"].get("k") == "var":
                    var = n["lhs"]["n"]
            if n.get("k") == "decls":
                for d in n["d"]:
                    r = self.deref(d.get("init")) if d.get("init") else None
                    if r is not None and r.get("_id") == nid:
                        var = d["n"]
        if var is None:
            # the call may be its own element referenced by a later assignment
            blk = self.blocks[site.b]
            for j in range(site.i + 1, len(blk.elems)):
                e = blk.elems[j]
                if e is None:
                    continue
                for n in walk(e):
                    if n.get("k") == "asg" and n.get("op") == "=" and n["lhs"].get("k") == "var":
                        r = n["rhs"]
                        if r.get("k") == "ref" and (r["b"], r["i"]) == (site.b, site.i):
                            var = n["lhs"]["n"]
                    if n.get("k") == "decls":
                        for d in n["d"]:
                            r = d.get("init")
                            if r is not None and r.get("k") == "ref" and (r["b"], r["i"]) == (site.b, site.i):
                                var = d["n"]
        if var is not None:
            def reassigns(b, i, e):
                if (b, i) == (site.b, site.i):
                    return False
                for n in walk(e):
                    if n.get("k") == "asg" and n["lhs"].get("k") == "var" and n["lhs"]["n"] == var:
                        # the assignment that stores our value is fine
                        r = n["rhs"]
                        if r.get("k") == "ref" and (r["b"], r["i"]) == (site.b, site.i):
                            return False
                        return True
                    if n.get("k") == "un" and n.get("op") == "&" and n["e"].get("k") == "var" and n["e"]["n"] == var:
                        return True
                return False
            seen = self.reach((site.b, site.i), blocked=reassigns)
            add(lambda n: n.get("k") == "var" and n["n"] == var, restrict=seen)
        return out

    def __repr__(self):
        return "<fn %s %s:%d>" % (self.name, self.file, self.line)


# ---------------------------------------------------------------------------
# branch polarity


def truth_of(cond, match):
    """Given an expanded condition tree and a predicate match(node)->bool on
    sub-expressions, return +1 if 'cond true  => matched value non-zero',
    -1 if 'cond true => matched value zero', 0 if unrelated.  Handles !X,
    X == 0, X != 0, 0 == X, (v = X) wrappers and plain X."""
    if cond is None:
        return 0
    k = cond.get("k")
    if match(cond):
        return 1
    if k == "asg" and cond.get("op") == "=":
        return truth_of(cond["rhs"], match)
    if k == "un" and cond.get("op") == "!":
        return -truth_of(cond["e"], match)
    if k == "bin" and cond.get("op") in ("==", "!="):
        l, r = cond["lhs"], cond["rhs"]
        for x, y in ((l, r), (r, l)):
            if const_of(y) == 0 and y.get("k") in ("int",):
                t = truth_of(x, match)
                if t:
                    return -t if cond["op"] == "==" else t
            if y.get("k") == "enum" and y.get("cv") == 0:
                t = truth_of(x, match)
                if t:
                    return -t if cond["op"] == "==" else t
    return 0


class Program:
    def __init__(self, facts):
        self.facts = facts
        self.records = facts["records"]
        self.enums = facts["enums"]
        self.globals = facts["globals"]
        self.functions = []
        self.by_name = defaultdict(list)
        for d in facts["functions"]:
            f = Function(d, self)
            self.functions.append(f)
            self.by_name[f.name].append(f)
        self.enum_value = {}
        for e in self.enums.values():
            for k, v in e.items():
                self.enum_value[k] = v
        self._slots = None
        self._callers = None
        self._aio_cbs = None

    def fn(self, name, file=None):
        """Unique function named name (optionally in file); None if absent."""
        c = self.by_name.get(name, [])
        if file:
            c = [f for f in c if f.file.endswith(file)]
        if not c:
            return None
        return c[0]

    def need(self, name, file=None):
        f = self.fn(name, file)
        if f is None:
            raise AnalysisBroken("anchor function %s%s not found in the build" % (name, (" in " + file) if file else ""))
        if f.cfg_failed:
            raise AnalysisBroken("no CFG for %s" % name)
        return f

    def fns_in(self, *suffixes):
        return [f for f in self.functions if any(f.file.endswith(s) or ("/" + s) in ("/" + f.file) for s in suffixes)]

    def resolve(self, callsite_fn, name):
        """Resolve a direct callee name from the point of view of a caller
        (static functions of the same file first)."""
        c = self.by_name.get(name, [])
        if not c:
            return None
        for f in c:
            if f.file == callsite_fn.file:
                return f
        for f in c:
            if not f.static:
                return f
        return c[0]

    # -- ops tables / slot registry ----------------------------------------
    def slots(self):
        """{ 'record.field': [(function name, global name, file)] } for every
        function stored in a designated slot of a global initialiser
        (recursively through nested initialisers and arrays)."""
        if self._slots is None:
            reg = defaultdict(list)

            def visit(n, g):
                if n is None:
                    return
                k = n.get("k")
                if k == "init":
                    for fld, v in n["fields"].items():
                        if v is None:
                            continue
                        vv = strip_addr(v)
                        if vv is not None and vv.get("k") == "fnref":
                            reg["%s.%s" % (n["rec"], fld)].append((vv["n"], g["name"], g["file"]))
                        else:
                            visit(v, g)
                elif k == "initarr":
                    for v in n["elems"]:
                        visit(v, g)
                elif k in ("un", "complit"):
                    visit(n.get("e"), g)

            for g in self.globals:
                visit(g.get("init"), g)
            self._slots = reg
        return self._slots

    def tables(self, rec):
        """Global initialisers of record type rec: list of (global, {field: node})."""
        out = []

        def visit(n, g):
            if n is None:
                return
            k = n.get("k")
            if k == "init":
                if n["rec"] == rec:
                    out.append((g, n["fields"]))
                for v in n["fields"].values():
                    visit(v, g)
            elif k == "initarr":
                for v in n["elems"]:
                    visit(v, g)
            elif k in ("un", "complit"):
                visit(n.get("e"), g)

        for g in self.globals:
            visit(g.get("init"), g)
        return out

    def slot_fns(self, slot, file=None):
        out = []
        for name, g, f in self.slots().get(slot, []):
            fn = self.fn(name, f) or self.fn(name)
            if fn is not None and (file is None or fn.file.endswith(file)):
                if fn not in out:
                    out.append(fn)
        return out

    # -- aio callbacks -----------------------------------------------------
    def aio_callbacks(self):
        """[(initialising fn, aio expr node, callback fn name, arg node)] for
        every nni_aio_init / nni_aio_alloc call."""
        if self._aio_cbs is None:
            out = []
            for f in self.functions:
                for s in f.calls(("nni_aio_init", "nni_aio_alloc", "nng_aio_alloc")):
                    a = s.node["args"]
                    if len(a) >= 3:
                        cb = strip_addr(f.deref(a[1]))
                        if cb is not None and cb.get("k") == "fnref":
                            out.append((f, f.deref(a[0]), cb["n"], f.deref(a[2]), s))
            self._aio_cbs = out
        return self._aio_cbs

    def callers(self):
        """{callee name: [(caller fn, site)]} over direct calls."""
        if self._callers is None:
            d = defaultdict(list)
            for f in self.functions:
                for s in f.calls():
                    if s.node.get("fn"):
                        d[s.node["fn"]].append((f, s))
            self._callers = d
        return self._callers

    def fn_refs(self, name):
        """Sites where function `name` is referenced other than as a direct
        callee (address taken: callbacks, cancel functions)."""
        out = []
        for f in self.functions:
            for s in f.sites():
                if s.node.get("k") == "fnref" and s.node["n"] == name:
                    out.append(s)
        return out
