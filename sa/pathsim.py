"""Path-sensitive property simulation over a function's CFG.

A worklist over (block, facts, client-state) triples: every distinct triple
is explored once, so loops terminate and correlated branches are pruned by
the *facts* -- a small propositional store established by branch conditions
and assignments and killed by intervening writes:

    key -> ('Z',) | ('NZ',) | ('EQ', k) | ('NE', k)      key = access path
    key -> ('RES', call_id)   the variable holds the result of that call

This is bookkeeping, not constraint solving; when in doubt both edges are
explored (never fewer paths than are feasible).
"""
from .core import walk, apath, const_of, show, AnalysisBroken

# callees that do not modify anything reachable through their arguments
PURE = {
    "nni_list_empty", "nni_list_first", "nni_list_last", "nni_list_next", "nni_list_prev", "nni_list_active",
    "nni_list_node_active", "nni_aio_list_active", "nni_aio_result", "nni_aio_count", "nni_aio_get_msg",
    "nni_aio_get_input", "nni_aio_get_output", "nni_aio_get_prov_data", "nni_msg_len", "nni_msg_header_len",
    "nni_msg_body", "nni_msg_header", "nni_lmq_full", "nni_lmq_empty", "nni_lmq_len", "nni_lmq_cap",
    "nni_pipe_id", "nni_sock_id", "nni_clock", "nni_id_get", "nni_aio_iov_count", "nni_atomic_get_bool",
    "nni_atomic_get", "nni_atomic_get64", "strlen", "strcmp", "strncmp", "memcmp", "nni_strcasecmp",
    "nni_msg_get_pipe", "nni_pipe_is_closed", "nni_aio_get_timeout", "nni_aio_busy", "nni_msg_shared",
    "nni_pipe_sock", "nni_sock_proto_data", "nni_pipe_get_proto_data", "nng_log_debug", "nng_log_info",
    "nng_log_warn", "nng_log_err", "nng_log_notice", "nni_stat_inc", "nni_stat_dec", "nni_stat_set_value",
    "nni_mtx_lock", "nni_mtx_unlock", "nni_aio_list_remove", "nni_aio_finish", "nni_aio_finish_error",
    "nni_aio_finish_msg", "nni_aio_finish_sync", "nni_aio_set_msg", "nni_msg_free", "nni_pollable_raise",
    "nni_pollable_clear", "nni_aio_start", "nni_aio_reset", "nni_msg_capacity", "nni_aio_set_timeout",
    "nni_msg_header_clear", "nni_msg_set_pipe", "nni_msg_clone", "nni_cv_wake", "nni_cv_wake1",
    "nni_aio_get_prov_data", "nni_aio_set_prov_data", "nni_free", "nni_strfree", "nni_aio_set_iov",
    "nni_aio_iov_advance", "nni_aio_abort", "nni_aio_set_output", "nni_aio_set_input", "isxdigit", "isdigit",
    "isalpha", "isspace", "tolower", "toupper", "nni_strnlen", "strchr", "strrchr", "strstr", "nni_aio_close",
    "nni_time", "nni_random", "nni_ntohs", "nni_htons", "sub0_matches", "nni_aio_completions_add",
    "nni_aio_completions_init", "nni_copyin_int", "nni_copyin_size", "nni_copyin_bool", "nni_copyin_ms",
}

# callees whose writes are confined to the object passed as their first argument
CONFINED_PREFIX = ("nni_lmq_", "nni_list_", "nni_aio_", "nni_msg_", "nng_msg_", "nni_pollable_", "nni_id_", "nni_stat_",
                   "nni_cv_", "nni_mtx_", "nni_atomic_", "nni_msgq_", "nni_pipe_send", "nni_pipe_recv", "nni_sleep_aio",
                   "nng_aio_", "nni_pipe_close", "nni_pipe_id", "nni_pipe_bump", "nni_sock_bump")

MAX_STATES = 60000


def _mentions(c):
    out = set()
    for n in walk(c):
        if n.get("k") in ("var", "mem", "idx"):
            p = apath(n)
            if p:
                out.add(p)
    return frozenset(out)


def _has_call(c):
    return any(n.get("k") == "call" and n.get("fn") not in PURE for n in walk(c))



class Facts:
    """Immutable fact store (frozenset of (key, value))."""
    __slots__ = ("d",)

    def __init__(self, d=None):
        self.d = d or {}

    def get(self, k):
        return self.d.get(k)

    def set(self, k, v):
        nd = dict(self.d)
        nd[k] = v
        return Facts(nd)

    def kill(self, pred):
        nd = {k: v for k, v in self.d.items() if not pred(k)}
        if len(nd) == len(self.d):
            return self
        return Facts(nd)

    def key(self):
        return frozenset(self.d.items())


def _contradicts(old, new):
    if old is None:
        return False
    o, n = old[0], new[0]
    if o == "RES" or n == "RES":
        return False
    if o == "Z":
        return n == "NZ" or (n == "EQ" and new[1] != 0) or (n == "NE" and new[1] == 0)
    if o == "NZ":
        return n == "Z" or (n == "EQ" and new[1] == 0)
    if o == "EQ":
        if n == "Z":
            return old[1] != 0
        if n == "NZ":
            return old[1] == 0
        if n == "EQ":
            return old[1] != new[1]
        if n == "NE":
            return old[1] == new[1]
    if o == "NE":
        if n == "EQ":
            return old[1] == new[1]
        if n == "Z":
            return old[1] == 0
    return False


def _merge(old, new):
    """Combine knowledge (new wins unless old is more precise)."""
    if old is not None and old[0] == "EQ" and new[0] in ("NZ", "NE", "Z"):
        return old
    return new


class Client:
    """Override what is needed; states must be hashable."""

    def init(self, sim):
        return ()

    def node(self, st, n, sim):
        """Called for every node in evaluation order; return new state or a
        list of states (fork)."""
        return st

    def branch(self, st, subj, val, sim):
        """subj: expanded subject expression of the condition (call node,
        var, field path ...); val: ('Z',)|('NZ',)|('EQ',k)|('NE',k).  Return
        new state, or None if this edge is infeasible for the client."""
        return st

    def equal(self, st, lhs, rhs, sim):
        """Known (in)equality of two expressions, or None."""
        return None

    def at_exit(self, st, sim, via_block):
        pass

    def key(self, st):
        return st


class Sim:
    def __init__(self, fn, client, max_states=MAX_STATES, entry_facts=None, once=None):
        # once: [(predicate(cond) -> bool, succ index)]: that edge of a matching
        # condition can be taken at most once per path (documented loop-bound
        # assumptions supplied by a rule's exception table)
        self.once = once or []
        self.fn = fn
        self.client = client
        self.max_states = max_states
        self.cur = None  # (block, idx) being executed
        self.facts = None
        self.trace = None
        self.entry_facts = entry_facts
        self.nstates = 0
        self.truncated = False
        self.call_by_id = {}

    # -- condition decomposition --------------------------------------------
    def subject(self, c):
        """Return (subject_expr, positive_val, negative_val) for a condition:
        the edge on which c is true asserts positive_val about subject."""
        if c is None:
            return None
        k = c.get("k")
        if k == "un" and c.get("op") == "!":
            s = self.subject(c["e"])
            if s is None:
                return None
            return (s[0], s[2], s[1])
        if k == "bin" and c.get("op") in ("==", "!="):
            l, r = c["lhs"], c["rhs"]
            for x, y in ((l, r), (r, l)):
                cv = const_of(y)
                if cv is not None and y.get("k") in ("int", "enum", "un", "bin", "sizeof"):
                    sx = self.subject_expr(x)
                    if sx is None:
                        return None
                    if cv == 0:
                        pos, neg = ("Z",), ("NZ",)
                    else:
                        pos, neg = ("EQ", cv), ("NE", cv)
                    if c["op"] == "!=":
                        pos, neg = neg, pos
                    return (sx, pos, neg)
            # x == y over two never-reassigned names: remember the outcome
            pl, pr = apath(l), apath(r)
            if pl and pr and len(pl) == 1 and len(pr) == 1 and self._stable(pl[0]) and self._stable(pr[0]):
                a, b = sorted((pl[0], pr[0]))
                pseudo = {"k": "var", "n": "<eq:%s,%s>" % (a, b)}
                pos, neg = ("NZ",), ("Z",)
                if c["op"] == "!=":
                    pos, neg = neg, pos
                return (pseudo, pos, neg)
            return None
        sx = self.subject_expr(c)
        if sx is None:
            return None
        return (sx, ("NZ",), ("Z",))

    def _stable(self, name):
        """name is a parameter or local that is never assigned after its
        declaration and whose address is never taken."""
        if not hasattr(self, "_stab"):
            bad = set()
            for s in self.fn.sites():
                n = s.node
                if n.get("k") == "asg" and n["lhs"].get("k") == "var":
                    bad.add(n["lhs"]["n"])
                elif n.get("k") == "un" and n.get("op") in ("&", "++", "--") and n["e"].get("k") == "var":
                    bad.add(n["e"]["n"])
            self._stab = bad
        return name not in self._stab

    def subject_expr(self, x):
        if x is None:
            return None
        k = x.get("k")
        if k == "asg" and x.get("op") == "=":
            return x  # value of the assignment; handled in apply
        if k in ("var", "mem", "call", "idx"):
            return x
        if k == "un" and x.get("op") == "*":
            return x
        return None

    def _apply(self, facts, st, subj, val):
        """Assert val about subj; returns (facts, st) or None if infeasible."""
        fn = self.fn
        k = subj.get("k")
        if k == "asg":
            # (v = e) compared: applies to v and to e
            r = self._apply(facts, st, subj["lhs"], val)
            if r is None:
                return None
            facts, st = r
            rhs = fn.expand(subj["rhs"])
            if rhs is not None and rhs.get("k") == "call":
                st = self.client.branch(st, rhs, val, self)
                if st is None:
                    return None
            return facts, st
        if k == "call":
            st = self.client.branch(st, subj, val, self)
            if st is None:
                return None
            return facts, st
        p = apath(subj)
        if p is not None and "[]" not in p:
            old = facts.get(p)
            if old is not None and old[0] == "RES":
                call = self.call_by_id.get(old[1])
                if call is not None:
                    st = self.client.branch(st, call, val, self)
                    if st is None:
                        return None
                facts = facts.set(p, val)
            else:
                if _contradicts(old, val):
                    return None
                facts = facts.set(p, _merge(old, val))
        st = self.client.branch(st, subj, val, self)
        if st is None:
            return None
        return facts, st

    # -- effects of one element on facts ------------------------------------
    def _exec_node(self, facts, n):
        k = n.get("k")
        fn = self.fn
        if k == "asg":
            p = apath(n["lhs"])
            if p is not None:
                facts = facts.kill(lambda q, p=p: q[:len(p)] == p or
                                   (q[0] == "<cond>" and any(m[:len(p)] == p for m in q[2])))
                if n.get("op") == "=" and "[]" not in p:
                    rhs = fn.expand(n["rhs"])
                    while rhs is not None and rhs.get("k") == "asg" and rhs.get("op") == "=":
                        rhs = fn.expand(rhs["rhs"])      # a = b = K
                    cv = const_of(rhs) if rhs is not None and rhs.get("k") in ("int", "enum") else None
                    if cv is not None:
                        facts = facts.set(p, ("Z",) if cv == 0 else ("EQ", cv))
                    elif rhs is not None and rhs.get("k") == "call":
                        self.call_by_id[rhs.get("_id")] = rhs
                        facts = facts.set(p, ("RES", rhs.get("_id")))
                    elif rhs is not None and rhs.get("k") in ("var", "mem"):
                        q = apath(rhs)
                        v = facts.get(q) if q else None
                        if v is not None:
                            facts = facts.set(p, v)
                    elif rhs is not None and rhs.get("k") == "un" and rhs.get("op") == "&":
                        facts = facts.set(p, ("NZ",))
            else:
                # write through something we cannot name: drop field facts
                facts = facts.kill(lambda q: len(q) > 1 and q[0] != "<once>")
        elif k == "un" and n.get("op") in ("++", "--"):
            p = apath(n["e"])
            if p is not None:
                facts = facts.kill(lambda q, p=p: q[:len(p)] == p or
                                   (q[0] == "<cond>" and any(m[:len(p)] == p for m in q[2])))
        elif k == "decls":
            for d in n["d"]:
                p = (d["n"],)
                facts = facts.kill(lambda q, p=p: q[:1] == p or (q[0] == "<cond>" and any(m[:1] == p for m in q[2])))
                if d.get("init") is not None:
                    rhs = fn.expand(d["init"])
                    cv = const_of(rhs) if rhs is not None and rhs.get("k") in ("int", "enum") else None
                    if cv is not None:
                        facts = facts.set(p, ("Z",) if cv == 0 else ("EQ", cv))
                    elif rhs is not None and rhs.get("k") == "call":
                        self.call_by_id[rhs.get("_id")] = rhs
                        facts = facts.set(p, ("RES", rhs.get("_id")))
                    elif rhs is not None and rhs.get("k") in ("var", "mem"):
                        q = apath(rhs)
                        v = facts.get(q) if q else None
                        if v is not None:
                            facts = facts.set(p, v)
        elif k == "call":
            # &x arguments may be written
            for a in n["args"]:
                a = fn.expand(a) if a is not None else None
                if a is not None and a.get("k") == "un" and a.get("op") == "&":
                    p = apath(a)
                    if p is not None:
                        facts = facts.kill(lambda q, p=p: q[:len(p)] == p or
                                           (q[0] == "<cond>" and any(m[:len(p)] == p for m in q[2])))
            f = n.get("fn")
            if f not in PURE:
                if f and f.startswith(CONFINED_PREFIX) and n["args"]:
                    a0 = fn.expand(n["args"][0])
                    p0 = apath(a0) if a0 is not None else None
                    if p0 is not None:
                        facts = facts.kill(lambda q, p=p0: (q[0] not in ("<once>", "<cond>") and len(q) > 1 and q[:len(p)] == p) or
                                           (q[0] == "<cond>" and any(m[:len(p)] == p for m in q[2])))
                    else:
                        facts = facts.kill(lambda q: len(q) > 1 and q[0] != "<once>")
                else:
                    facts = facts.kill(lambda q: (len(q) > 1 and q[0] not in ("<once>", "<cond>")) or
                                       (q[0] == "<cond>" and any(len(m) > 1 for m in q[2])))
        return facts

    # -- main loop ------------------------------------------------------------
    def run(self):
        fn = self.fn
        cl = self.client
        if fn.cfg_failed or fn.entry is None:
            raise AnalysisBroken("no CFG for %s" % fn.name)
        st0 = cl.init(self)
        f0 = Facts(dict(self.entry_facts) if self.entry_facts else None)
        work = [(fn.entry, f0, st0, ())]
        seen = set()
        while work:
            b, facts, st, trace = work.pop()
            key = (b, facts.key(), cl.key(st))
            if key in seen:
                continue
            seen.add(key)
            self.nstates += 1
            if self.nstates > self.max_states:
                self.truncated = True
                break
            blk = fn.blocks[b]
            trace = trace + (b,)
            self.trace = trace
            states = [(facts, st)]
            for i, e in enumerate(blk.elems):
                if e is None:
                    continue
                self.cur = (b, i)
                nxt = []
                for facts1, st1 in states:
                    cur = [(facts1, st1)]
                    for n in walk(e):
                        new = []
                        for f2, s2 in cur:
                            self.facts = f2
                            r = cl.node(s2, n, self)
                            f3 = self._exec_node(f2, n)
                            if isinstance(r, list):
                                new.extend((f3, x) for x in r)
                            else:
                                new.append((f3, r))
                        cur = new
                    nxt.extend(cur)
                states = nxt
                if not states:
                    break
            self.cur = (b, len(blk.elems))
            if b == fn.exit:
                for facts1, st1 in states:
                    self.facts = facts1
                    cl.at_exit(st1, self, trace[-2] if len(trace) > 1 else b)
                continue
            if blk.noreturn:
                continue
            succs = blk.succs
            for facts1, st1 in states:
                self.facts = facts1
                if blk.term and "cond" in blk.term and len(succs) == 2:
                    c = fn.cond(b)
                    forced = None
                    if c is not None and c.get("k") == "bin" and c.get("op") in ("==", "!="):
                        eq = cl.equal(st1, c["lhs"], c["rhs"], self)
                        if eq is not None:
                            forced = 0 if (eq == (c["op"] == "==")) else 1
                    if forced is not None:
                        if succs[forced] is not None:
                            work.append((succs[forced], facts1, st1, trace))
                        continue
                    sj = self.subject(c)
                    ckey = None
                    if sj is None and c is not None and not _has_call(c):
                        ckey = ("<cond>", show(c), _mentions(c))
                        known = facts1.get(ckey)
                        if known is not None:
                            k0 = 0 if known[0] == "NZ" else 1
                            # same condition, nothing it mentions was written since: same outcome
                            if self.once and any(idx == k0 and pred(c) for pred, idx in self.once):
                                continue   # ... but that edge may be taken only once
                            if succs[k0] is not None:
                                work.append((succs[k0], facts1, st1, trace))
                            continue
                    for k, s in enumerate(succs):
                        if s is None:
                            continue
                        if ckey is not None:
                            facts_k = facts1.set(ckey, ("NZ",) if k == 0 else ("Z",))
                        else:
                            facts_k = facts1
                        if self.once and c is not None:
                            hit = False
                            for pred, idx in self.once:
                                if idx == k and pred(c):
                                    hit = True
                            if hit:
                                okey = ("<once>", b, k)
                                if facts_k.get(okey) is not None:
                                    continue
                                f_once = facts_k.set(okey, ("NZ",))
                                if sj is None:
                                    work.append((s, f_once, st1, trace))
                                else:
                                    val = sj[1] if k == 0 else sj[2]
                                    r = self._apply(f_once, st1, sj[0], val)
                                    if r is not None:
                                        work.append((s, r[0], r[1], trace))
                                continue
                        if sj is None:
                            work.append((s, facts_k, st1, trace))
                            continue
                        val = sj[1] if k == 0 else sj[2]
                        r = self._apply(facts_k, st1, sj[0], val)
                        if r is None:
                            continue
                        work.append((s, r[0], r[1], trace))
                elif blk.term and blk.term.get("kind") == "SwitchStmt":
                    c = fn.cond(b)
                    sx = self.subject_expr(c) if c is not None else None
                    cases = []
                    for s in succs:
                        if s is None:
                            continue
                        lb = fn.blocks[s].label
                        if lb and lb.get("kind") == "case" and "cv" in lb:
                            cases.append(lb["cv"])
                    for s in succs:
                        if s is None:
                            continue
                        lb = fn.blocks[s].label
                        if sx is not None and lb and lb.get("kind") == "case" and "cv" in lb:
                            cv = lb["cv"]
                            r = self._apply(facts1, st1, sx, ("Z",) if cv == 0 else ("EQ", cv))
                            if r is None:
                                continue
                            work.append((s, r[0], r[1], trace))
                        elif sx is not None and 0 in cases:
                            # default / fall-out edge: value differs from every case
                            r = self._apply(facts1, st1, sx, ("NZ",))
                            if r is None:
                                continue
                            work.append((s, r[0], r[1], trace))
                        else:
                            work.append((s, facts1, st1, trace))
                else:
                    for s in succs:
                        if s is not None:
                            work.append((s, facts1, st1, trace))
        return self

    def lines(self):
        """Source lines of the current trace (for reports)."""
        out = []
        for b in self.trace or ():
            ln = self.fn.line_of(b, 0)
            if not out or out[-1] != ln:
                out.append(ln)
        if self.cur:
            ln = self.fn.line_of(*self.cur)
            if not out or out[-1] != ln:
                out.append(ln)
        return out

    def here(self):
        return self.fn.line_of(*self.cur) if self.cur else self.fn.line


class _FactProbe(Client):
    def __init__(self, pos):
        self.pos = pos
        self.seen = []

    def node(self, st, n, sim):
        if sim.cur == self.pos and (not self.seen or self.seen[-1] is not sim.facts):
            self.seen.append(sim.facts)
            self.prev.append(sim.trace[-2] if sim.trace and len(sim.trace) > 1 else None)
        return st


def facts_at(fn, pos, with_prev=False):
    """Fact stores (one per explored path state) when execution reaches pos
    (before the element at pos is executed); with_prev also returns the block
    each state came from."""
    cl = _FactProbe(pos)
    cl.prev = []
    Sim(fn, cl, max_states=20000).run()
    if with_prev:
        return list(zip(cl.seen, cl.prev))
    return cl.seen
