#!/bin/sh
# Build the fact extractor from source on disk (offline, clang 14 / llvm 14).
set -e
cd "$(dirname "$0")"
mkdir -p bin evidence .cache
if [ ! -x bin/nngfacts ] || [ tools/nngfacts.cc -nt bin/nngfacts ]; then
  clang++ $(llvm-config-14 --cxxflags) -fno-rtti -O1 tools/nngfacts.cc -o bin/nngfacts.tmp \
    /usr/lib/llvm-14/lib/libclang-cpp.so.14 /usr/lib/llvm-14/lib/libLLVM-14.so
  mv bin/nngfacts.tmp bin/nngfacts
fi
echo "setup ok"
