#!/usr/bin/env python3
"""selftest.py [-j N] [-k substring] [--list]

Tests the checkers both ways on scratch copies of /repo's working tree (never on /repo itself):

  * `break` mutants: one rule instance is broken by a small edit that still compiles; the named check
    must exit 1 and report the named rule;
  * `neutral` variants: a behaviour-preserving rewrite of the same code (renamed local, reordered
    independent statements, different but equivalent comparison form); the named check must stay silent.

The mutants live in /verif/mutants/*.json:
  {"id": "...", "property": "C01", "kind": "break"|"neutral", "file": "src/...", "old": "...", "new": "...",
   "expect_rule": "C01.R1", "why": "..."}
`old` must occur exactly once in the file.  Scratch copies are made under $TMPDIR and removed afterwards.
This is a test of the machinery, not of nng: it is not one of the MANIFEST commands."""
import argparse
import glob
import json
import os
import shutil
import subprocess
import sys
import tempfile
from concurrent.futures import ThreadPoolExecutor

VERIF = os.path.dirname(os.path.dirname(os.path.abspath(__file__)))
REPO = os.environ.get("NNG_REPO", "/repo")


def load():
    out = []
    for p in sorted(glob.glob(os.path.join(VERIF, "mutants", "*.json"))):
        with open(p) as fh:
            for m in json.load(fh):
                m["_src"] = os.path.basename(p)
                out.append(m)
    return out


def make_copy():
    d = tempfile.mkdtemp(prefix="nngselftest.")
    files = subprocess.run(["git", "-C", REPO, "ls-files"], capture_output=True, text=True, check=True).stdout.split("\n")
    for f in files:
        if not f or f.startswith(("docs/", "demo/", ".github/")):
            continue
        src = os.path.join(REPO, f)
        if not os.path.isfile(src):
            continue
        dst = os.path.join(d, f)
        os.makedirs(os.path.dirname(dst), exist_ok=True)
        shutil.copy2(src, dst)
    for extra in ("docs", "demo"):
        os.makedirs(os.path.join(d, extra), exist_ok=True)
    return d


def run_one(m):
    d = make_copy()
    try:
        p = os.path.join(d, m["file"])
        with open(p) as fh:
            s = fh.read()
        n = s.count(m["old"])
        if n != 1:
            return m, "STALE", "`old` occurs %d times in %s" % (n, m["file"])
        with open(p, "w") as fh:
            fh.write(s.replace(m["old"], m["new"]))
        env = dict(os.environ, NNG_REPO=d, VERIF_EVIDENCE=os.path.join(d, "_evidence"))
        r = subprocess.run([os.path.join(VERIF, "check"), m["property"]], capture_output=True, text=True, env=env, cwd=VERIF)
        if r.returncode == 2 and "failed to parse" in r.stdout:
            return m, "NOCOMPILE", r.stdout[-400:]
        rules = sorted(set(x.split("[")[1].split("]")[0] for x in r.stdout.splitlines() if x.startswith("  src/") and "[" in x))
        if m["kind"] == "break":
            if r.returncode == 1 and (not m.get("expect_rule") or m["expect_rule"] in rules):
                return m, "ok", "reported %s" % ",".join(rules)
            if r.returncode == 1:
                return m, "WRONG-RULE", "expected %s, got %s" % (m.get("expect_rule"), rules)
            return m, "MISSED", "rc=%d %s" % (r.returncode, r.stdout[-300:].replace("\n", " | "))
        if r.returncode == 0:
            return m, "ok", "silent"
        return m, "FALSE-ALARM", "rc=%d %s" % (r.returncode, "; ".join(x.strip()[:200] for x in r.stdout.splitlines()
                                                                      if x.startswith("  src/") or "BROKEN" in x)[:600])
    finally:
        shutil.rmtree(d, ignore_errors=True)


def main():
    ap = argparse.ArgumentParser()
    ap.add_argument("-j", type=int, default=4)
    ap.add_argument("-k", default="")
    ap.add_argument("--list", action="store_true")
    a = ap.parse_args()
    ms = [m for m in load() if a.k in m["id"] or a.k == m["property"]]
    if a.list:
        for m in ms:
            print(m["id"], m["property"], m["kind"], m.get("expect_rule", ""), "-", m.get("why", ""))
        return 0
    bad = 0
    with ThreadPoolExecutor(a.j) as ex:
        for m, st, info in ex.map(run_one, ms):
            print("%-12s %-28s %-8s %s" % (st, m["id"], m["kind"], info))
            if st != "ok":
                bad += 1
    # evidence replays written by the scratch runs are not evidence of /repo
    print("%d mutants, %d not as expected" % (len(ms), bad))
    return 1 if bad else 0


if __name__ == "__main__":
    sys.exit(main())
