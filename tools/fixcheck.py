#!/usr/bin/env python3
"""fixcheck.py: a `fixed:` entry of known_findings.json suppresses nothing -- check that each repaired defect is reported again when
its fix is taken out.  For every fix commit the reverse patch (git show -R) is applied to a scratch copy of /repo's tree and the
property's check is run there; the rule recorded with the finding must be among the reported ones."""
import json, os, re, subprocess, sys, tempfile
V = os.path.dirname(os.path.dirname(os.path.abspath(__file__)))
d = json.load(open(os.path.join(V, "known_findings.json")))
by = {}
for f in d["findings"]:
    if f.get("status") == "fixed":
        by.setdefault(f["commit"], []).append(f)
bad = 0
for c, items in by.items():
    r = subprocess.run(["git", "-C", "/repo", "show", "-R", "--format=", c, "--", "src", "include"], capture_output=True, text=True)
    with tempfile.NamedTemporaryFile("w", suffix=".diff", delete=False) as fh:
        fh.write(r.stdout)
    props = ",".join(sorted(set(f["property"] for f in items)))
    out = subprocess.run([sys.executable, os.path.join(V, "tools", "patchcheck.py"), "-p", props, fh.name], capture_output=True, text=True).stdout
    os.unlink(fh.name)
    rules = set(re.findall(r"\[(C\d\d\.[A-Za-z0-9]+)\]", out))
    want = set(f["rule"] for f in items)
    if "DOES NOT APPLY" in out:
        print("%s  (reverse patch no longer applies: later fixes touch the same lines)  expects %s" % (c, ",".join(sorted(want))))
    elif want & rules:
        print("%s  reverted -> reported by %s" % (c, ",".join(sorted(want & rules))))
    else:
        bad += 1
        print("%s  reverted -> NOT REPORTED (expected %s, got %s)" % (c, ",".join(sorted(want)), ",".join(sorted(rules)) or "nothing"))
sys.exit(1 if bad else 0)
