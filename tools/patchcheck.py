#!/usr/bin/env python3
"""patchcheck.py [-p C01,C02] <patch.diff>...   -- run the quick checks on a scratch copy of /repo's working tree with a
patch applied (never touches /repo; for fast iteration on seeded / neutral variants).  Prints, per patch, the checks that
did not exit 0 and their reports."""
import argparse, json, os, shutil, subprocess, sys
from concurrent.futures import ThreadPoolExecutor
sys.path.insert(0, os.path.dirname(os.path.abspath(__file__)))
from selftest import make_copy, VERIF


FAST = False


def run(patch, props):
    d = make_copy()
    try:
        r = subprocess.run(["patch", "-p1", "-s", "-d", d, "-i", os.path.abspath(patch)], capture_output=True, text=True)
        if r.returncode != 0:
            return patch, None, "PATCH DOES NOT APPLY: " + (r.stdout + r.stderr)[-300:]
        env = dict(os.environ, NNG_REPO=d, VERIF_EVIDENCE=os.path.join(d, "_evidence"))
        hits, lines = [], []
        if FAST:     # one process for all properties; only those it cannot clear go to the real check
            c = subprocess.run([sys.executable, os.path.join(VERIF, "tools", "fastall.py"), ",".join(props)], capture_output=True, text=True, env=env, cwd=VERIF)
            sus = [x for x in c.stdout.splitlines() if x.startswith("SUSPICIOUS")]
            props = [q for q in sus[-1].split(" ", 1)[1].split(",") if q] if sus else props
        for p in props:
            c = subprocess.run([os.path.join(VERIF, "check"), p], capture_output=True, text=True, env=env, cwd=VERIF)
            if c.returncode != 0:
                hits.append("%s(rc=%d)" % (p, c.returncode))
                lines += [x.replace(d + "/", "")[:400] for x in c.stdout.splitlines() if x.startswith("  src/") or "BROKEN" in x or x.startswith("  (lock")][:8]
        return patch, hits, "\n".join(lines)
    finally:
        shutil.rmtree(d, ignore_errors=True)


def main():
    ap = argparse.ArgumentParser()
    ap.add_argument("-p", default="")
    ap.add_argument("-j", type=int, default=3)
    ap.add_argument("--fast", action="store_true")
    ap.add_argument("patches", nargs="+")
    a = ap.parse_args()
    global FAST
    FAST = a.fast
    props = a.p.split(",") if a.p else [c["property_id"] for c in json.load(open(os.path.join(VERIF, "MANIFEST.json")))["checks"]]
    with ThreadPoolExecutor(a.j) as ex:
        for patch, hits, text in ex.map(lambda x: run(x, props), a.patches):
            print("== %s: %s" % (patch, "none" if hits == [] else (" ".join(hits) if hits else "ERROR")))
            if text:
                print(text)


if __name__ == "__main__":
    main()
