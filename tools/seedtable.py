#!/usr/bin/env python3
"""seedtable.py <patchcheck-or-seedall log>: regenerate the seed table of DESIGN.md §7 (between the SEEDS markers) from the log
of a run of all checks against every seeded change, and store the reporting rules in seeded/*/meta.json (detected_rules)."""
import json, os, re, sys
V = os.path.dirname(os.path.dirname(os.path.abspath(__file__)))
log = open(sys.argv[1]).read()
rules = {}
cur = None
for line in log.split("\n"):
    m = re.match(r"^(?:== )?(?:seeded/)?(C\d\d-[a-z])(?:/patch.diff)?:", line)
    if m:
        cur = m.group(1)
        rules.setdefault(cur, set())
        continue
    if cur:
        for r in re.findall(r"\[(C\d\d\.[A-Za-z0-9]+)\]", line):
            rules[cur].add(r)
rows = []
for sid in sorted(os.listdir(os.path.join(V, "seeded"))):
    d = os.path.join(V, "seeded", sid)
    mp = os.path.join(d, "meta.json")
    if not os.path.exists(mp):
        continue
    meta = json.load(open(mp))
    notes = open(os.path.join(d, "NOTES.md")).read().strip().split("\n")[0].lstrip("# ").strip()
    t = re.split(r"\s[—-]{1,2}\s", notes, 1)[-1].strip()
    rs = sorted(rules.get(sid, []))
    meta["detected_rules"] = rs
    json.dump(meta, open(mp, "w"), indent=1)
    rows.append("| %s | %s | %s | %s |" % (sid, ", ".join(os.path.basename(f) for f in meta["files_changed"]),
                                          t.replace("|", "\\|")[:150], ", ".join(rs) if rs else "**not reported**"))
text = "| seed | file | change | reported by |\n|---|---|---|---|\n" + "\n".join(rows)
dp = os.path.join(V, "DESIGN.md")
s = open(dp).read()
a, b = "<!-- SEEDS:BEGIN -->", "<!-- SEEDS:END -->"
if a in s and b in s:
    s = s[:s.index(a) + len(a)] + "\n" + text + "\n" + s[s.index(b):]
    open(dp, "w").write(s)
    print("DESIGN.md seed table: %d seeds, %d not reported" % (len(rows), sum(1 for r in rows if "not reported" in r)))
else:
    print(text)
