#!/bin/bash
# seedall.sh: which checks report which seeded change.
#  stage 1 (parallel, scratch copies of /repo's tree): every claimed check against every seeded change -> candidates;
#  stage 2 (on /repo itself, as the brief prescribes): each change is applied with `git -C /repo apply`, the candidate checks
#          are run there (exit 1 expected), and the change is undone straight away with `git -C /repo checkout -- .`.
# Writes detected_by / detected_rules into seeded/*/meta.json and refreshes the table in DESIGN.md.
cd /verif
LOG=${TMPDIR:-/tmp}/seedall.$$.log
if [ -n "$STAGE1" ]; then cp "$STAGE1" $LOG.1; else python3 tools/patchcheck.py -j ${J:-5} seeded/*/patch.diff > $LOG.1 2>&1; fi   # STAGE1=<log of an earlier patchcheck run over seeded/*>
: > $LOG.2
for d in seeded/*/; do
  n=$(basename $d)
  cands=$(grep "^== seeded/$n/patch.diff:" $LOG.1 | grep -o "C[0-9][0-9](rc=1)" | sed 's/(rc=1)//' | tr '\n' ' ')
  if [ -z "$cands" ]; then echo "$n: none" | tee -a $LOG.2; continue; fi
  out=$(tools/seedcheck.sh $d/patch.diff $cands 2>&1)
  det=$(echo "$out" | grep "DETECTED BY:" | sed 's/DETECTED BY: *//')
  echo "$n: $det" | tee -a $LOG.2
  echo "$out" | grep -E "^\s+src/|^\s+\(lock" | cut -c1-260 >> $LOG.2
  python3 - "$d" "$det" <<'PY'
import json,sys,re
d,det=sys.argv[1],sys.argv[2]
m=json.load(open(d+"meta.json"))
m["detected_by"]=[x for x in re.findall(r"(C\d+)\(rc=1\)",det)]
m.pop("analysis_broken_in",None)
json.dump(m,open(d+"meta.json","w"),indent=1)
PY
done
git -C /repo status --short | grep -v '^??' && echo "WARNING: /repo not clean"
python3 tools/seedtable.py $LOG.2
rm -f $LOG.1
echo "log: $LOG.2"
