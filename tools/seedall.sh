#!/bin/bash
# Run every claimed quick check against every seeded change; write detected_by into meta.json and a table.
cd /verif
for d in seeded/*/; do
  n=$(basename $d)
  out=$(tools/seedcheck.sh $d/patch.diff 2>&1)
  det=$(echo "$out" | grep "DETECTED BY:" | sed 's/DETECTED BY: *//')
  python3 - "$d" "$det" <<'PY'
import json,sys,re
d,det=sys.argv[1],sys.argv[2]
m=json.load(open(d+"meta.json"))
m["detected_by"]=[x for x in re.findall(r"(C\d+)\(rc=1\)",det)]
m["analysis_broken_in"]=[x for x in re.findall(r"(C\d+)\(rc=2\)",det)]
json.dump(m,open(d+"meta.json","w"),indent=1)
PY
  echo "$n: $det"
  echo "$out" | grep -E "^\s+src/|^\s+\(lock" | cut -c1-220 | sed 's/^/     /' | head -4
done
