#!/usr/bin/env python3
"""Regenerate MANIFEST.json from the table below (claimed properties) -- run by hand after adding a property module."""
import json, os, importlib, sys
V = os.path.dirname(os.path.dirname(os.path.abspath(__file__)))
sys.path.insert(0, V)
props = [json.loads(l) for l in open(os.path.join(V, "properties.jsonl"))]
checks = []
na = []
for p in props:
    pid = p["id"]
    path = os.path.join(V, "sa", "props", pid.lower() + ".py")
    if not os.path.exists(path):
        na.append({"property_id": pid, "reason": "static rules for this property are designed (DESIGN.md section 3) but not built yet; no claim is made"})
        continue
    m = importlib.import_module("sa.props." + pid.lower())
    checks.append({
        "property_id": pid,
        "quick_cmd": "./check %s --tier quick" % pid,
        "thorough_cmd": "./check %s --tier thorough" % pid,
        "evidence_file": "evidence/%s.json" % pid,
        "replay_cmd_template": "./check %s --replay {path}" % pid,
        "engine": "nngfacts+sa",
        "level_claimed": {
            "category": "other",
            "text": getattr(m, "LEVEL_TEXT", m.EXPLANATION),
            "design_ref": "DESIGN.md section 3, %s" % pid,
        },
        "level_note": getattr(m, "LEVEL_NOTE", "Decides structural necessary conditions of the property on every CFG path of the current "
                              "source (as-built configuration; thorough adds NDEBUG-off, stats-off and poll-poller configurations); does not decide "
                              "value-level or schedule-level behaviour. Trusts clang's front end/CFG, the CMake flags and the frozen tables in sa/."),
        "technique": getattr(m, "TECHNIQUE", "custom static analysis over clang AST/CFG facts (dominance, reachability, typestate)"),
    })
man = {
    "version": 1,
    "setup_cmd": "./setup.sh",
    "hooks": {
        "guard": "NNG_VERIF",
        "enable": "no hooks are needed: the analysis reads the unmodified source tree; the guard name is reserved only",
        "baseline_off_cmd": "cmake -S /repo -B /repo/_build -G Ninja -DCMAKE_BUILD_TYPE=RelWithDebInfo -DCMAKE_C_FLAGS=-Wno-error -DNNG_TESTS=ON -DNNG_TOOLS=ON -DBUILD_SHARED_LIBS=ON && cmake --build /repo/_build && ctest --test-dir /repo/_build -j8 --timeout 900",
        "source_commits": [],
        "add_only": True,
    },
    "engines": [{
        "name": "nngfacts+sa",
        "path": "tools/nngfacts.cc, sa/",
        "serves_properties": [c["property_id"] for c in checks],
        "kind_free_text": "LibTooling fact extractor (typed AST, clang CFG, record layouts, ops tables) + Python rule engine: dominance/reachability, path-sensitive typestate, lockset, slot/sibling agreement",
    }],
    "checks": checks,
    "not_applicable": na,
    "notes": "Static analysis only. Exit 0 = all obligations discharged (known findings printed as KNOWN-FINDING lines); exit 1 = VIOLATION; exit 2 = analysis broken (parse failure, anchor vanished, instance count below floor).",
}
json.dump(man, open(os.path.join(V, "MANIFEST.json"), "w"), indent=1)
print("claimed", [c["property_id"] for c in checks], "n/a", len(na))
