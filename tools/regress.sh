#!/bin/bash
# regress.sh: both-ways regression of the checks on scratch copies of /repo (never on /repo itself):
#   every seeded change under seeded/ must be reported by at least one check (exit 1 of that check),
#   every neutral refactoring under neutral/ must leave all twenty checks at exit 0.
cd "$(dirname "$0")/.."
python3 tools/patchcheck.py -j ${J:-5} seeded/*/patch.diff > /tmp/regress.seeds.$$ 2>&1
python3 tools/patchcheck.py -j ${J:-5} neutral/*/*/patch.diff > /tmp/regress.neutral.$$ 2>&1
ms=$(grep "^== " /tmp/regress.seeds.$$ | grep -vc "(rc=1)")
ns=$(grep "^== " /tmp/regress.seeds.$$ | wc -l)
fa=$(grep "^== " /tmp/regress.neutral.$$ | grep -vc ": none")
nn=$(grep "^== " /tmp/regress.neutral.$$ | wc -l)
echo "seeded changes: $ns, not reported: $ms"
grep "^== " /tmp/regress.seeds.$$ | grep -v "(rc=1)"
echo "neutral refactorings: $nn, alarms (exit 1 or 2): $fa"
grep -A4 "^== " /tmp/regress.neutral.$$ | grep -v ": none" | grep -v "^--" | cut -c1-240
cp /tmp/regress.seeds.$$ ${KEEP:-/tmp}/regress.seeds.last 2>/dev/null; cp /tmp/regress.neutral.$$ ${KEEP:-/tmp}/regress.neutral.last 2>/dev/null; rm -f /tmp/regress.seeds.$$ /tmp/regress.neutral.$$
[ "$ms" = 0 ] && [ "$fa" = 0 ]
