#!/usr/bin/env python3
"""seedimport5.py <ID> <variant a|b> <new-variant m|n>: copy a confirmed round-7 seeded change from /tmp/r10/<ID>s/out/<v>
into /verif/seeded/<ID>-<new>/ with meta.json (confirmation facts come from /tmp/r10/confirm/<ID>-<v>.log)"""
import json, os, re, shutil, subprocess, sys
pid, v, nv = sys.argv[1], sys.argv[2], sys.argv[3]
src = "/tmp/r10/%ss/out/%s" % (pid, v)
dst = "/verif/seeded/%s-%s" % (pid, nv)
log = open("/tmp/r10/confirm/%s-%s.log" % (pid, v)).read()
m = re.search(r"SUMMARY \S+ apply=(\d+) build=(\d+) suite=(\d+) pristine_demo=(\d+) patched_demo=(\d+)", log)
assert m, "no summary"
a, b, s, p, q = map(int, m.groups())
assert a == 0 and b == 0 and s == 0 and p == 0 and q != 0, "not confirmed: %s" % m.group(0)
retried = re.findall(r"retry (\S+) ok=1", log)
os.makedirs(dst, exist_ok=True)
for f in os.listdir(src):
    if f.endswith((".diff", ".c", ".h", ".sh", ".md")):
        shutil.copy(os.path.join(src, f), os.path.join(dst, f))
notes = open(os.path.join(src, "NOTES.md")).read()
diff = open(os.path.join(src, "patch.diff")).read()
files = sorted(set(re.findall(r"^\+\+\+ b/(\S+)", diff, re.M)))
meta = {
    "property": pid, "variant": nv, "round": 7, "files_changed": files,
    "origin": "independent sub-agent given only the property text, a scratch worktree, and the list of sites earlier seeds used",
    "needs_to_manifest": notes.strip().split("\n\n")[1][:700] if "\n\n" in notes else notes[:700],
    "confirmed_by_me": {
        "base": subprocess.run(["git", "-C", "/repo", "rev-parse", "--short", "HEAD"], capture_output=True, text=True).stdout.strip(),
        "patch_applies": True, "builds": True,
        "suite": "all tests pass with the patch except nng.platform.resolver_test (fails offline on the pinned tree too)" + (
            "; %s failed in the parallel run (fixed ports / tmp paths held by other jobs) and passed when re-run alone" % ", ".join(retried)
            if retried else ""),
        "demo_on_unpatched_tree_exit": p, "demo_on_patched_tree_exit": q,
        "ran": "/tmp/r10/confirm/confirm.sh (scratch worktree of /repo HEAD: build, ctest -j6, run_demo.sh before/after git apply)",
    },
    "detected_by": None,
}
json.dump(meta, open(os.path.join(dst, "meta.json"), "w"), indent=1)
print("imported", dst)
