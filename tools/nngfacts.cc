// nngfacts — LibTooling fact extractor written for nanomsg/nng.
//
// For every translation unit given on the command line (with the flags of
// the compilation database) it emits, as JSON, everything the Python rules
// in /verif/sa need: function definitions with their clang::CFG (blocks,
// elements as expression trees with resolved callees / field accesses /
// folded constants / macro provenance, terminators with branch condition
// and ordered successors), record layouts, enum values and global
// initialisers (ops tables).  Nothing is decided here; this tool only
// exposes the type-checked program.
//
// Build: see /verif/setup.sh.   Usage: nngfacts -p <builddir> -o out.json f.c...

#include "clang/AST/ASTConsumer.h"
#include "clang/AST/ASTContext.h"
#include "clang/AST/Decl.h"
#include "clang/AST/Expr.h"
#include "clang/AST/RecordLayout.h"
#include "clang/AST/RecursiveASTVisitor.h"
#include "clang/AST/Stmt.h"
#include "clang/Analysis/CFG.h"
#include "clang/Frontend/CompilerInstance.h"
#include "clang/Frontend/FrontendAction.h"
#include "clang/Lex/Lexer.h"
#include "clang/Tooling/CommonOptionsParser.h"
#include "clang/Tooling/Tooling.h"
#include "llvm/Support/CommandLine.h"
#include "llvm/Support/JSON.h"
#include "llvm/Support/raw_ostream.h"

#include <map>
#include <set>
#include <string>

using namespace clang;
using namespace clang::tooling;
namespace json = llvm::json;

static llvm::cl::OptionCategory Cat("nngfacts options");
static llvm::cl::opt<std::string> OutFile("o", llvm::cl::desc("output file"),
    llvm::cl::value_desc("file"), llvm::cl::cat(Cat));
static llvm::cl::opt<std::string> Root("root",
    llvm::cl::desc("repository root (only declarations below it are emitted)"),
    llvm::cl::init("/repo"), llvm::cl::cat(Cat));

// Output accumulated over all units of this process.
static json::Array  gFunctions;
static json::Object gRecords;
static json::Object gEnums;
static json::Array  gGlobals;
static json::Array  gUnits;
static std::set<std::string> gSeenFn; // file:line:name for header functions

namespace {

class Emitter {
      public:
	ASTContext          &Ctx;
	const SourceManager &SM;
	std::string          root;

	// Per function: map from statement to CFG element position.
	std::map<const Stmt *, std::pair<unsigned, unsigned>> elemPos;
	const Stmt                                           *curRoot = nullptr;

	Emitter(ASTContext &C, const std::string &r)
	    : Ctx(C), SM(C.getSourceManager()), root(r)
	{
	}

	bool
	inRepo(SourceLocation L, std::string *rel = nullptr)
	{
		if (L.isInvalid())
			return false;
		SourceLocation E = SM.getExpansionLoc(L);
		PresumedLoc    P = SM.getPresumedLoc(E);
		if (P.isInvalid())
			return false;
		std::string f = P.getFilename();
		// normalise a little
		llvm::SmallString<256> abs(f);
		SM.getFileManager().makeAbsolutePath(abs);
		llvm::sys::path::remove_dots(abs, true);
		std::string a = abs.str().str();
		if (a.compare(0, root.size(), root) != 0)
			return false;
		if (rel) {
			*rel = a.substr(root.size());
			while (!rel->empty() && (*rel)[0] == '/')
				rel->erase(0, 1);
		}
		return true;
	}

	unsigned
	lineOf(SourceLocation L)
	{
		if (L.isInvalid())
			return 0;
		return SM.getExpansionLineNumber(L);
	}

	std::string
	recName(const RecordDecl *RD)
	{
		if (!RD)
			return "";
		if (!RD->getName().empty())
			return RD->getName().str();
		if (const TypedefNameDecl *T = RD->getTypedefNameForAnonDecl())
			return T->getName().str();
		// anonymous member struct/union: name by location
		std::string rel;
		inRepo(RD->getLocation(), &rel);
		return "<anon:" + rel + ":" +
		    std::to_string(lineOf(RD->getLocation())) + ">";
	}

	// Record name behind a type (through pointers, arrays, typedefs).
	std::string
	recOfType(QualType T)
	{
		for (int i = 0; i < 8 && !T.isNull(); i++) {
			T = T.getCanonicalType();
			if (const RecordType *RT = T->getAs<RecordType>())
				return recName(RT->getDecl());
			if (T->isPointerType())
				T = T->getPointeeType();
			else if (const ArrayType *AT = Ctx.getAsArrayType(T))
				T = AT->getElementType();
			else
				break;
		}
		return "";
	}

	std::string
	typeStr(QualType T)
	{
		if (T.isNull())
			return "";
		return T.getAsString(Ctx.getPrintingPolicy());
	}

	// Macro expansion stack (innermost first) at a location.
	void
	macros(SourceLocation L, std::vector<std::string> &out)
	{
		int guard = 0;
		while (L.isMacroID() && guard++ < 16) {
			StringRef n = Lexer::getImmediateMacroName(
			    L, SM, Ctx.getLangOpts());
			if (!n.empty() &&
			    (out.empty() || out.back() != n.str()))
				out.push_back(n.str());
			if (SM.isMacroArgExpansion(L))
				L = SM.getImmediateSpellingLoc(L);
			else
				L = SM.getImmediateExpansionRange(L).getBegin();
		}
	}

	static const Expr *
	strip(const Expr *E)
	{
		while (E) {
			if (auto *P = dyn_cast<ParenExpr>(E))
				E = P->getSubExpr();
			else if (auto *C = dyn_cast<CastExpr>(E))
				E = C->getSubExpr();
			else if (auto *K = dyn_cast<ConstantExpr>(E))
				E = K->getSubExpr();
			else if (auto *F = dyn_cast<FullExpr>(E))
				E = F->getSubExpr();
			else
				break;
		}
		return E;
	}

	void
	addConst(json::Object &o, const Expr *E)
	{
		if (!E || E->isValueDependent())
			return;
		QualType T = E->getType();
		if (T.isNull() || !(T->isIntegralOrEnumerationType()))
			return;
		if (!E->isPRValue())
			return;
		Expr::EvalResult R;
		if (E->EvaluateAsInt(R, Ctx, Expr::SE_NoSideEffects)) {
			llvm::APSInt v = R.Val.getInt();
			if (v.isSigned())
				o["cv"] = (int64_t) v.getExtValue();
			else if (v.getActiveBits() <= 63)
				o["cv"] = (int64_t) v.getZExtValue();
			else
				o["cv"] = llvm::toString(v, 10);
		}
	}

	json::Value
	ser(const Stmt *S, unsigned parentLine, const std::string &parentMac)
	{
		if (!S)
			return nullptr;
		bool voidcast = false;
		if (const Expr *E0 = dyn_cast<Expr>(S)) {
			// an explicit (void) cast documents a deliberately
			// discarded result: keep it visible
			const Expr *P = E0;
			while (auto *PE = dyn_cast<ParenExpr>(P))
				P = PE->getSubExpr();
			if (auto *CC = dyn_cast<CStyleCastExpr>(P))
				if (CC->getType()->isVoidType())
					voidcast = true;
			const Expr *E = strip(E0);
			S             = E;
		}
		if (voidcast) {
			json::Object v;
			v["k"]  = "un";
			v["op"] = "(void)";
			v["e"]  = serInner(S, parentLine, parentMac);
			return std::move(v);
		}
		return serInner(S, parentLine, parentMac);
	}

	json::Value
	serInner(const Stmt *S, unsigned parentLine, const std::string &parentMac)
	{
		if (S != curRoot) {
			auto it = elemPos.find(S);
			if (it != elemPos.end()) {
				json::Object r;
				r["k"] = "ref";
				r["b"] = it->second.first;
				r["i"] = it->second.second;
				return std::move(r);
			}
		}
		json::Object o;
		unsigned     line = lineOf(S->getBeginLoc());
		if (line && line != parentLine)
			o["l"] = line;
		std::string macs;
		{
			std::vector<std::string> mv;
			macros(S->getBeginLoc(), mv);
			for (auto &m : mv) {
				if (!macs.empty())
					macs += ",";
				macs += m;
			}
			if (macs != parentMac) {
				json::Array a;
				for (auto &m : mv)
					a.push_back(m);
				o["m"] = std::move(a);
			}
		}
#define SUB(x) ser((x), line ? line : parentLine, macs)
		if (auto *CE = dyn_cast<CallExpr>(S)) {
			o["k"] = "call";
			const FunctionDecl *FD = CE->getDirectCallee();
			if (FD) {
				o["fn"] = FD->getName().str();
			} else {
				o["ind"] = SUB(CE->getCallee());
			}
			json::Array args;
			for (const Expr *A : CE->arguments())
				args.push_back(SUB(A));
			o["args"] = std::move(args);
			return std::move(o);
		}
		if (auto *ME = dyn_cast<MemberExpr>(S)) {
			o["k"] = "mem";
			o["b"] = SUB(ME->getBase());
			o["f"] = ME->getMemberDecl()->getName().str();
			if (ME->isArrow())
				o["arrow"] = true;
			if (auto *FD = dyn_cast<FieldDecl>(ME->getMemberDecl())) {
				o["rec"] = recName(FD->getParent());
				o["t"]   = typeStr(FD->getType());
			}
			return std::move(o);
		}
		if (auto *DR = dyn_cast<DeclRefExpr>(S)) {
			const ValueDecl *D = DR->getDecl();
			if (auto *EC = dyn_cast<EnumConstantDecl>(D)) {
				o["k"]  = "enum";
				o["n"]  = EC->getName().str();
				o["cv"] = (int64_t) EC->getInitVal().getExtValue();
				return std::move(o);
			}
			if (isa<FunctionDecl>(D)) {
				o["k"] = "fnref";
				o["n"] = D->getName().str();
				return std::move(o);
			}
			o["k"] = "var";
			o["n"] = D->getName().str();
			if (auto *VD = dyn_cast<VarDecl>(D)) {
				if (isa<ParmVarDecl>(VD))
					o["vk"] = "param";
				else if (VD->hasGlobalStorage())
					o["vk"] = VD->isStaticLocal() ? "slocal"
					                              : "global";
				else
					o["vk"] = "local";
			}
			o["t"] = typeStr(D->getType());
			return std::move(o);
		}
		if (auto *IL = dyn_cast<IntegerLiteral>(S)) {
			o["k"] = "int";
			llvm::APInt v = IL->getValue();
			if (v.getActiveBits() <= 63)
				o["cv"] = (int64_t) v.getZExtValue();
			else
				o["cv"] = llvm::toString(v, 10, false);
			return std::move(o);
		}
		if (auto *CL = dyn_cast<CharacterLiteral>(S)) {
			o["k"]  = "int";
			o["cv"] = (int64_t) CL->getValue();
			o["ch"] = true;
			return std::move(o);
		}
		if (auto *SL = dyn_cast<StringLiteral>(S)) {
			o["k"] = "str";
			if (SL->getCharByteWidth() == 1) {
				std::string v;
				for (unsigned char c : SL->getBytes().substr(0, 200)) {
					if (c >= 0x20 && c < 0x7f && c != '\\') {
						v.push_back((char) c);
					} else {
						char buf[8];
						snprintf(buf, sizeof(buf), "\\x%02x", c);
						v += buf;
					}
				}
				o["v"] = v;
			}
			o["len"] = (int64_t) SL->getByteLength();
			return std::move(o);
		}
		if (isa<FloatingLiteral>(S)) {
			o["k"] = "float";
			return std::move(o);
		}
		if (auto *UO = dyn_cast<UnaryOperator>(S)) {
			o["k"]  = "un";
			o["op"] = UnaryOperator::getOpcodeStr(UO->getOpcode()).str();
			if (UO->isPostfix())
				o["post"] = true;
			o["e"] = SUB(UO->getSubExpr());
			addConst(o, UO);
			return std::move(o);
		}
		if (auto *BO = dyn_cast<BinaryOperator>(S)) {
			if (BO->isAssignmentOp()) {
				o["k"] = "asg";
			} else {
				o["k"] = "bin";
				addConst(o, BO);
			}
			o["op"] = BO->getOpcodeStr().str();
			if (BO->isShiftOp()) // width and signedness a shift is evaluated in (casts are not kept as nodes)
				o["t"] = typeStr(BO->getType().getCanonicalType());
			o["lhs"] = SUB(BO->getLHS());
			o["rhs"] = SUB(BO->getRHS());
			return std::move(o);
		}
		if (auto *CO = dyn_cast<ConditionalOperator>(S)) {
			o["k"] = "cond";
			o["c"] = SUB(CO->getCond());
			o["a"] = SUB(CO->getTrueExpr());
			o["b"] = SUB(CO->getFalseExpr());
			return std::move(o);
		}
		if (auto *AS = dyn_cast<ArraySubscriptExpr>(S)) {
			o["k"] = "idx";
			o["b"] = SUB(AS->getBase());
			o["i"] = SUB(AS->getIdx());
			o["t"] = typeStr(AS->getType());
			return std::move(o);
		}
		if (auto *UE = dyn_cast<UnaryExprOrTypeTraitExpr>(S)) {
			o["k"]  = "sizeof";
			o["tr"] = (int) UE->getKind();
			if (UE->isArgumentType()) {
				o["ty"]  = typeStr(UE->getArgumentType());
				o["rec"] = recOfType(UE->getArgumentType());
			} else {
				o["e"]   = SUB(UE->getArgumentExpr());
				o["ty"]  = typeStr(UE->getArgumentExpr()->getType());
				o["rec"] = recOfType(UE->getArgumentExpr()->getType());
			}
			addConst(o, UE);
			return std::move(o);
		}
		if (auto *OE = dyn_cast<OffsetOfExpr>(S)) {
			o["k"] = "offsetof";
			o["ty"] = typeStr(OE->getTypeSourceInfo()->getType());
			addConst(o, OE);
			return std::move(o);
		}
		if (auto *IE = dyn_cast<InitListExpr>(S)) {
			return serInit(IE, line ? line : parentLine, macs);
		}
		if (auto *CLE = dyn_cast<CompoundLiteralExpr>(S)) {
			o["k"] = "complit";
			o["e"] = SUB(CLE->getInitializer());
			return std::move(o);
		}
		if (auto *DS = dyn_cast<DeclStmt>(S)) {
			o["k"] = "decls";
			json::Array ds;
			for (const Decl *D : DS->decls()) {
				if (auto *VD = dyn_cast<VarDecl>(D)) {
					json::Object d;
					d["n"] = VD->getName().str();
					d["t"] = typeStr(VD->getType());
					std::string rn = recOfType(VD->getType());
					if (!rn.empty())
						d["rec"] = rn;
					if (VD->getType().getCanonicalType()->isScalarType())
						d["sc"] = true;    // pointer / arithmetic / enum: one value, no members
					if (VD->hasInit())
						d["init"] = SUB(VD->getInit());
					if (VD->isStaticLocal())
						d["static"] = true;
					ds.push_back(std::move(d));
				}
			}
			o["d"] = std::move(ds);
			return std::move(o);
		}
		if (auto *RS = dyn_cast<ReturnStmt>(S)) {
			o["k"] = "ret";
			if (RS->getRetValue())
				o["e"] = SUB(RS->getRetValue());
			return std::move(o);
		}
		if (auto *SE = dyn_cast<StmtExpr>(S)) {
			o["k"] = "stmtexpr";
			return std::move(o);
		}
		if (isa<ImplicitValueInitExpr>(S)) {
			o["k"]  = "int";
			o["cv"] = 0;
			o["implicit"] = true;
			return std::move(o);
		}
		if (auto *PE = dyn_cast<PredefinedExpr>(S)) {
			o["k"] = "str";
			o["v"] = "__func__";
			return std::move(o);
		}
		if (auto *VA = dyn_cast<VAArgExpr>(S)) {
			o["k"] = "vaarg";
			return std::move(o);
		}
		if (auto *DI = dyn_cast<DesignatedInitExpr>(S)) {
			o["k"] = "desig";
			o["e"] = SUB(DI->getInit());
			return std::move(o);
		}
		// Unknown statement kinds: keep the class name and children.
		o["k"]   = "other";
		o["cls"] = S->getStmtClassName();
		json::Array ch;
		for (const Stmt *C : S->children())
			if (C)
				ch.push_back(SUB(C));
		o["ch"] = std::move(ch);
		return std::move(o);
#undef SUB
	}

	json::Value
	serInit(const InitListExpr *IE0, unsigned line, const std::string &macs)
	{
		const InitListExpr *IE =
		    IE0->isSemanticForm() ? IE0 : IE0->getSemanticForm();
		if (!IE)
			IE = IE0;
		json::Object o;
		QualType     T = IE->getType();
		if (const RecordType *RT = T->getAs<RecordType>()) {
			o["k"]   = "init";
			o["rec"] = recName(RT->getDecl());
			json::Object fields;
			unsigned     i = 0;
			if (RT->getDecl()->isUnion()) {
				if (const FieldDecl *F =
				        IE->getInitializedFieldInUnion()) {
					if (IE->getNumInits() > 0)
						fields[F->getName().str()] =
						    ser(IE->getInit(0), line, macs);
				}
			} else {
				for (const FieldDecl *F : RT->getDecl()->fields()) {
					if (F->isUnnamedBitfield())
						continue;
					if (i >= IE->getNumInits())
						break;
					const Expr *Init = IE->getInit(i++);
					if (isa<ImplicitValueInitExpr>(Init))
						continue;
					fields[F->getName().str()] =
					    ser(Init, line, macs);
				}
			}
			o["fields"] = std::move(fields);
			return std::move(o);
		}
		o["k"] = "initarr";
		json::Array el;
		for (unsigned i = 0; i < IE->getNumInits(); i++)
			el.push_back(ser(IE->getInit(i), line, macs));
		o["elems"] = std::move(el);
		if (const ConstantArrayType *CA = Ctx.getAsConstantArrayType(T))
			o["n"] = (int64_t) CA->getSize().getZExtValue();
		return std::move(o);
	}

	void
	emitFunction(const FunctionDecl *FD)
	{
		std::string rel;
		if (!inRepo(FD->getLocation(), &rel))
			return;
		std::string key = rel + ":" +
		    std::to_string(lineOf(FD->getLocation())) + ":" +
		    FD->getName().str();
		if (!gSeenFn.insert(key).second)
			return;

		json::Object f;
		f["name"]    = FD->getName().str();
		f["file"]    = rel;
		f["line"]    = lineOf(FD->getBeginLoc());
		f["endline"] = lineOf(FD->getEndLoc());
		f["static"]  = FD->getStorageClass() == SC_Static;
		f["ret"]     = typeStr(FD->getReturnType());
		json::Array ps;
		for (const ParmVarDecl *P : FD->parameters()) {
			json::Object p;
			p["n"] = P->getName().str();
			p["t"] = typeStr(P->getType());
			std::string rn = recOfType(P->getType());
			if (!rn.empty())
				p["rec"] = rn;
			ps.push_back(std::move(p));
		}
		f["params"] = std::move(ps);

		CFG::BuildOptions BO;
		BO.PruneTriviallyFalseEdges = true;
		BO.AddEHEdges               = false;
		std::unique_ptr<CFG> cfg =
		    CFG::buildCFG(FD, FD->getBody(), &Ctx, BO);
		if (!cfg) {
			f["cfg_failed"] = true;
			gFunctions.push_back(std::move(f));
			return;
		}
		elemPos.clear();
		for (const CFGBlock *B : *cfg) {
			unsigned i = 0;
			for (const CFGElement &E : *B) {
				if (auto CS = E.getAs<CFGStmt>()) {
					const Stmt *S = CS->getStmt();
					if (auto *EX = dyn_cast<Expr>(S))
						S = strip(EX);
					if (!elemPos.count(S))
						elemPos[S] = { B->getBlockID(), i };
				}
				i++;
			}
		}
		json::Array blocks;
		for (const CFGBlock *B : *cfg) {
			json::Object b;
			b["id"] = B->getBlockID();
			json::Array els;
			unsigned    ei = 0;
			for (const CFGElement &E : *B) {
				if (auto CS = E.getAs<CFGStmt>()) {
					const Stmt *S = CS->getStmt();
					if (auto *EX = dyn_cast<Expr>(S))
						S = strip(EX);
					// (void) f(x): the cast and the call are
					// two elements over one stripped node --
					// the second becomes a reference.
					auto it = elemPos.find(S);
					if (it != elemPos.end() &&
					    (it->second.first != B->getBlockID() ||
					        it->second.second != ei))
						curRoot = nullptr;
					else
						curRoot = S;
					els.push_back(ser(CS->getStmt(), 0, ""));
					curRoot = nullptr;
				} else {
					els.push_back(nullptr);
				}
				ei++;
			}
			b["elems"] = std::move(els);
			json::Array su;
			for (auto I = B->succ_begin(); I != B->succ_end(); ++I) {
				if (const CFGBlock *SB = I->getReachableBlock())
					su.push_back(SB->getBlockID());
				else
					su.push_back(nullptr);
			}
			b["succs"] = std::move(su);
			if (const Stmt *T = B->getTerminatorStmt()) {
				json::Object t;
				std::string  kind = T->getStmtClassName();
				if (auto *BOp = dyn_cast<BinaryOperator>(T))
					kind = BOp->getOpcodeStr().str();
				t["kind"] = kind;
				t["l"]    = lineOf(T->getBeginLoc());
				const Stmt *C = B->getTerminatorCondition(true);
				// An if/while over (a && b): this block decides
				// on the last operand.
				while (C) {
					const Expr *CE = dyn_cast<Expr>(C);
					if (!CE)
						break;
					CE = strip(CE);
					C  = CE;
					auto *LB = dyn_cast<BinaryOperator>(CE);
					if (LB && LB->isLogicalOp() && LB != T)
						C = LB->getRHS();
					else
						break;
				}
				if (C) {
					if (auto *LB = dyn_cast<BinaryOperator>(T)) {
						if (LB->isLogicalOp()) {
							// this block decides on the last operand of
							// the left-hand side chain: (a || b) || c
							const Expr *L = strip(LB->getLHS());
							while (auto *LL = dyn_cast<BinaryOperator>(L)) {
								if (!LL->isLogicalOp())
									break;
								L = strip(LL->getRHS());
							}
							C = L;
						}
					}
					curRoot   = nullptr;
					t["cond"] = ser(C, 0, "");
				}
				b["term"] = std::move(t);
			}
			if (const Stmt *L = B->getLabel()) {
				json::Object lb;
				if (auto *CS = dyn_cast<CaseStmt>(L)) {
					lb["kind"] = "case";
					curRoot    = nullptr;
					lb["v"]    = ser(CS->getLHS(), 0, "");
					Expr::EvalResult R;
					if (CS->getLHS()->EvaluateAsInt(R, Ctx))
						lb["cv"] = (int64_t) R.Val.getInt()
						               .getExtValue();
				} else if (isa<DefaultStmt>(L)) {
					lb["kind"] = "default";
				} else if (auto *LS = dyn_cast<LabelStmt>(L)) {
					lb["kind"] = "label";
					lb["n"]    = std::string(LS->getName());
				}
				lb["l"]    = lineOf(L->getBeginLoc());
				b["label"] = std::move(lb);
			}
			if (B->hasNoReturnElement())
				b["noreturn"] = true;
			blocks.push_back(std::move(b));
		}
		f["blocks"] = std::move(blocks);
		f["entry"]  = cfg->getEntry().getBlockID();
		f["exit"]   = cfg->getExit().getBlockID();
		gFunctions.push_back(std::move(f));
	}

	void
	emitRecord(const RecordDecl *RD)
	{
		if (!RD->isCompleteDefinition())
			return;
		std::string rel;
		if (!inRepo(RD->getLocation(), &rel))
			return;
		std::string name = recName(RD);
		if (gRecords.get(name))
			return;
		json::Object r;
		r["file"]  = rel;
		r["line"]  = lineOf(RD->getLocation());
		r["union"] = RD->isUnion();
		if (!RD->isInvalidDecl() && !RD->isDependentType()) {
			const ASTRecordLayout &L = Ctx.getASTRecordLayout(RD);
			r["size"] = (int64_t) L.getSize().getQuantity();
		}
		json::Array fs;
		const ASTRecordLayout *LP = nullptr;
		if (!RD->isInvalidDecl() && !RD->isDependentType())
			LP = &Ctx.getASTRecordLayout(RD);
		for (const FieldDecl *F : RD->fields()) {
			json::Object fo;
			fo["n"]        = F->getName().str();
			if (LP && !F->isBitField())
				fo["off"] = (int64_t) (LP->getFieldOffset(
				                F->getFieldIndex()) / 8);
			fo["t"]        = typeStr(F->getType());
			QualType    FT = F->getType().getCanonicalType();
			std::string rn = recOfType(FT);
			if (!rn.empty())
				fo["rec"] = rn;
			if (FT->isPointerType())
				fo["ptr"] = true;
			if (FT->isFunctionPointerType())
				fo["fnptr"] = true;
			if (const ConstantArrayType *CA =
			        Ctx.getAsConstantArrayType(FT)) {
				fo["arr"] = (int64_t) CA->getSize().getZExtValue();
				if (!CA->getElementType()->isIncompleteType())
					fo["elsz"] = (int64_t) Ctx
					    .getTypeSizeInChars(CA->getElementType())
					    .getQuantity();
			}
			if (!FT->isIncompleteType() && !F->isBitField())
				fo["size"] = (int64_t) Ctx.getTypeSizeInChars(FT)
				                 .getQuantity();
			fs.push_back(std::move(fo));
		}
		r["fields"]    = std::move(fs);
		gRecords[name] = std::move(r);
	}

	void
	emitEnum(const EnumDecl *ED)
	{
		if (!ED->isCompleteDefinition())
			return;
		std::string rel;
		if (!inRepo(ED->getLocation(), &rel))
			return;
		std::string name = ED->getName().str();
		if (name.empty()) {
			if (const TypedefNameDecl *T =
			        ED->getTypedefNameForAnonDecl())
				name = T->getName().str();
			else
				name = "<anon:" + rel + ":" +
				    std::to_string(lineOf(ED->getLocation())) +
				    ">";
		}
		if (gEnums.get(name))
			return;
		json::Object e;
		for (const EnumConstantDecl *C : ED->enumerators())
			e[C->getName().str()] =
			    (int64_t) C->getInitVal().getExtValue();
		gEnums[name] = std::move(e);
	}

	void
	emitGlobal(const VarDecl *VD)
	{
		if (!VD->hasGlobalStorage() || !VD->isThisDeclarationADefinition())
			return;
		std::string rel;
		if (!inRepo(VD->getLocation(), &rel))
			return;
		json::Object g;
		g["name"]   = VD->getName().str();
		g["file"]   = rel;
		g["line"]   = lineOf(VD->getLocation());
		g["t"]      = typeStr(VD->getType());
		g["static"] = VD->getStorageClass() == SC_Static;
		std::string rn = recOfType(VD->getType());
		if (!rn.empty())
			g["rec"] = rn;
		if (VD->isStaticLocal())
			g["slocal"] = true;
		if (VD->hasInit()) {
			elemPos.clear();
			curRoot   = nullptr;
			g["init"] = ser(VD->getInit(), 0, "");
		}
		gGlobals.push_back(std::move(g));
	}
};

class Visitor : public RecursiveASTVisitor<Visitor> {
      public:
	Emitter &Em;
	explicit Visitor(Emitter &E) : Em(E) {}
	bool
	VisitFunctionDecl(FunctionDecl *FD)
	{
		if (FD->doesThisDeclarationHaveABody())
			Em.emitFunction(FD);
		return true;
	}
	bool
	VisitRecordDecl(RecordDecl *RD)
	{
		Em.emitRecord(RD);
		return true;
	}
	bool
	VisitEnumDecl(EnumDecl *ED)
	{
		Em.emitEnum(ED);
		return true;
	}
	bool
	VisitVarDecl(VarDecl *VD)
	{
		Em.emitGlobal(VD);
		return true;
	}
};

class Consumer : public ASTConsumer {
      public:
	void
	HandleTranslationUnit(ASTContext &Ctx) override
	{
		if (Ctx.getDiagnostics().hasErrorOccurred()) {
			// recorded by the action below
		}
		Emitter E(Ctx, Root);
		Visitor V(E);
		V.TraverseDecl(Ctx.getTranslationUnitDecl());
	}
};

class Action : public ASTFrontendAction {
      public:
	std::unique_ptr<ASTConsumer>
	CreateASTConsumer(CompilerInstance &CI, StringRef file) override
	{
		return std::make_unique<Consumer>();
	}
	void
	EndSourceFileAction() override
	{
		json::Object u;
		u["file"] = getCurrentFile().str();
		u["errors"] =
		    (int64_t) getCompilerInstance().getDiagnostics()
		        .getClient()->getNumErrors();
		gUnits.push_back(std::move(u));
	}
};

} // namespace

int
main(int argc, const char **argv)
{
	auto Exp = CommonOptionsParser::create(argc, argv, Cat);
	if (!Exp) {
		llvm::errs() << llvm::toString(Exp.takeError()) << "\n";
		return 2;
	}
	CommonOptionsParser &OP = Exp.get();
	ClangTool            Tool(OP.getCompilations(), OP.getSourcePathList());
	int rc = Tool.run(newFrontendActionFactory<Action>().get());

	json::Object out;
	out["units"]     = std::move(gUnits);
	out["functions"] = std::move(gFunctions);
	out["records"]   = std::move(gRecords);
	out["enums"]     = std::move(gEnums);
	out["globals"]   = std::move(gGlobals);
	out["rc"]        = rc;
	std::error_code       EC;
	std::string           of = OutFile.empty() ? "-" : OutFile.getValue();
	llvm::raw_fd_ostream  OS(of, EC);
	if (EC) {
		llvm::errs() << "cannot write " << of << "\n";
		return 2;
	}
	OS << json::Value(std::move(out));
	OS << "\n";
	return rc == 0 ? 0 : 2;
}
