#!/usr/bin/env python3
"""fastall.py: one process, one extraction, all twenty property modules on the as-written view of $NNG_REPO.  Prints the
properties whose run is 'suspicious' in the engine's sense (a finding that is not a listed known finding, a rule below its floor,
an analysis error) -- exactly the cases in which ./check would not exit 0 without a second opinion.  A property not printed
here exits 0 under ./check.  Used by tools/patchcheck.py --fast to regress the neutral refactorings quickly; the suspicious
properties are then decided by the real ./check."""
import importlib, json, os, sys
V = os.path.dirname(os.path.dirname(os.path.abspath(__file__)))
sys.path.insert(0, V)
os.chdir(V)
from sa import engine, extract
from sa.core import Program, AnalysisBroken
props = sys.argv[1].split(",") if len(sys.argv) > 1 and sys.argv[1] else ["C%02d" % i for i in range(1, 21)]
try:
    facts = extract.extract(config="default")
except Exception as e:
    print("SUSPICIOUS " + ",".join(props)); sys.exit(0)
prog = Program(facts)
sus = []
for p in props:
    mod = importlib.import_module("sa.props.%s" % p.lower())
    c = engine.Ctx(p, prog, "quick", "default")
    err = None
    try:
        mod.run(c)
    except Exception as e:
        err = str(e)
    known = {(k["rule"], k["file"], k["function"], k["construct"]) for k in engine.load_known()
             if k["property"] == p and k.get("status", "known") == "known"}
    for r in c.rules:
        for fd in r.findings:
            fd.rule = r.id
    bad = err is not None or c.module_broken or any(r.obligations < r.floor or r.broken for r in c.rules) or any(
        (f.rule, f.file, f.function, f.construct) not in known for r in c.rules for f in r.findings)
    if bad:
        sus.append(p)
print("SUSPICIOUS " + ",".join(sus))
