#!/usr/bin/env python3
"""mkscratch.py <patch.diff>: scratch copy of /repo's tree with the patch applied; prints its path (debug aid; remove it yourself)"""
import os, subprocess, sys
sys.path.insert(0, os.path.dirname(os.path.abspath(__file__)))
from selftest import make_copy
d = make_copy()
r = subprocess.run(["patch", "-p1", "-s", "-d", d, "-i", os.path.abspath(sys.argv[1])], capture_output=True, text=True)
if r.returncode:
    print("PATCH FAILED", r.stdout, r.stderr)
print(d)
