#!/usr/bin/env python3
"""seedimport.py <ID> <variant>: copy a confirmed seeded change into /verif/seeded/<ID>-<variant>/ with meta.json"""
import json, os, re, shutil, subprocess, sys
pid, v = sys.argv[1], sys.argv[2]
src = "/tmp/seed/%s/out/%s" % (pid, v)
dst = "/verif/seeded/%s-%s" % (pid, v)
log = open("/tmp/confirm/%s-%s.log" % (pid, v)).read()
m = re.search(r"SUMMARY \S+ apply=(\d+) build=(\d+) pristine_demo=(\d+) patched_demo=(\d+)", log)
assert m, "no summary"
a, b, p, q = map(int, m.groups())
assert a == 0 and b == 0 and p == 0 and q != 0, "not confirmed: %s" % m.group(0)
suite = open("/tmp/confirm/%s-%s.log.suite" % (pid, v)).read()
extra = [l.split()[2] for l in suite.splitlines() if re.match(r"^\s+\d+ - ", l) and "resolver_test" not in l and "multistress" not in l]
retried = len(re.findall(r"100% tests passed", log))
assert retried >= len(extra), "suite failures not cleared: %s" % extra
os.makedirs(dst, exist_ok=True)
for f in os.listdir(src):
    if f.endswith((".diff", ".c", ".h", ".sh", ".md")):
        shutil.copy(os.path.join(src, f), os.path.join(dst, f))
notes = open(os.path.join(src, "NOTES.md")).read()
diff = open(os.path.join(src, "patch.diff")).read()
files = sorted(set(re.findall(r"^\+\+\+ b/(\S+)", diff, re.M)))
meta = {
    "property": pid,
    "variant": v,
    "files_changed": files,
    "origin": "independent sub-agent given only the property text and a scratch worktree of the pinned commit",
    "needs_to_manifest": (re.search(r"(?is)(needs?|trigger|manifest)[^\n]*\n(.{0,600})", notes) or [None, None, ""])[2].strip()[:600] if False else notes.strip().split("\n\n")[1][:700] if "\n\n" in notes else notes[:700],
    "confirmed_by_me": {
        "base": subprocess.run(["git", "-C", "/repo", "rev-parse", "--short", "HEAD"], capture_output=True, text=True).stdout.strip(),
        "patch_applies": True, "builds": True,
        "suite": "72 stable tests pass with the patch (resolver_test always fails offline, multistress_test flaky%s)" % (
            "; %s failed in the parallel run because other jobs held the same ports and passed when re-run alone" % ", ".join(extra) if extra else ""),
        "demo_on_unpatched_tree_exit": p, "demo_on_patched_tree_exit": q,
        "ran": "/tmp/confirm/confirm.sh %s %s (scratch worktree of /repo HEAD: build, ctest -j8, run_demo.sh before/after git apply)" % (pid, v),
    },
    "detected_by": None,
}
json.dump(meta, open(os.path.join(dst, "meta.json"), "w"), indent=1)
print("imported", dst)
