#!/bin/bash
# confirm.sh <slot> <ID> <variant>: confirm a seeded change in scratch worktree /tmp/r2/confirm/wt<slot> of /repo HEAD
slot=$1; id=$2; v=$3
R=${R:-/tmp/r2}
wt=$R/confirm/wt$slot
src=$R/${id}s/out/$v
log=$R/confirm/$id-$v.log
exec > $log 2>&1
if [ ! -d $wt ]; then
  git -C /repo worktree add --detach $wt HEAD || exit 9
  cmake -S $wt -B $wt/_build -G Ninja -DCMAKE_BUILD_TYPE=RelWithDebInfo -DCMAKE_C_FLAGS=-Wno-error -DNNG_TESTS=ON -DNNG_TOOLS=ON -DBUILD_SHARED_LIBS=ON > $wt.cmake.log 2>&1
  ninja -C $wt/_build > $wt.ninja.log 2>&1 || { echo "PRISTINE BUILD FAILED"; exit 9; }
fi
cd $wt; git checkout -q -- . ; git clean -qfd -e _build
ninja -C $wt/_build > /dev/null 2>&1
echo "== pristine demo"
( cd $src && timeout 900 bash ./run_demo.sh $wt ) > $log.pristine 2>&1; p=$?
echo "pristine_demo rc=$p"
echo "== apply"
git -C $wt apply $src/patch.diff; a=$?
if [ $a -ne 0 ]; then git -C $wt apply --3way $src/patch.diff; a=$?; git -C $wt reset -q; fi
echo "apply rc=$a"
b=1; q=0; s=1
if [ $a -eq 0 ]; then
  ninja -C $wt/_build > $log.build 2>&1; b=$?
  echo "build rc=$b"
  if [ $b -eq 0 ]; then
    echo "== suite"
    unshare -m bash -c "mount -t tmpfs tmpfs /tmp/nuts 2>/dev/null; ctest --test-dir $wt/_build -j6 --timeout 900" > $log.suite 2>&1
    grep -E "tests passed|^\s+[0-9]+ - " $log.suite
    fails=$(grep -E "^\s+[0-9]+ - " $log.suite | grep -v "resolver_test\|multistress" | awk '{print $3}')
    s=0
    for t in $fails; do
      ok=0
      for try in 1 2 3; do ctest --test-dir $wt/_build -R "^$t\$" --timeout 900 > $log.retry 2>&1 && { ok=1; break; }; sleep 3; done
      echo "retry $t ok=$ok"; [ $ok -eq 1 ] || s=1
    done
    echo "suite rc=$s"
    echo "== patched demo"
    ( cd $src && timeout 900 bash ./run_demo.sh $wt ) > $log.patched 2>&1; q=$?
    echo "patched_demo rc=$q"
  fi
fi
git -C $wt checkout -q -- . ; git -C $wt clean -qfd -e _build; ninja -C $wt/_build > /dev/null 2>&1
echo "SUMMARY $id-$v apply=$a build=$b suite=$s pristine_demo=$p patched_demo=$q"
