#!/usr/bin/env python3
"""dumpfn.py <function> [file-suffix] [--raw]: print the CFG facts of one function (debug aid for rule writing)."""
import json, os, sys
sys.path.insert(0, os.path.join(os.path.dirname(os.path.abspath(__file__)), ".."))
from sa import extract
from sa.core import Program, show
facts = extract.extract()
prog = Program(facts)
name = sys.argv[1]
suf = sys.argv[2] if len(sys.argv) > 2 and not sys.argv[2].startswith("--") else None
raw = "--raw" in sys.argv
for f in prog.functions:
    if f.name != name or (suf and not f.file.endswith(suf)):
        continue
    print("==", f.name, f.file, "entry", f.entry, "exit", f.exit)
    for b in f.blocks.values():
        print(" B%s succs=%s" % (b.id, b.succs), ("cond: " + show(f.cond(b.id))) if b.term and "cond" in b.term else (b.term or ""))
        for i, e in enumerate(b.elems):
            print("    [%d] L%s %s" % (i, f.line_of(b.id, i), json.dumps(e) if raw else show(f.expand(e))))
