#!/bin/bash
# seedcheck.sh <patch.diff> [props...]  -- apply a seeded change to /repo, run the quick checks, undo it.
P=$(readlink -f "$1"); shift
cd /verif
PROPS=${@:-$(python3 -c "import json;print(' '.join(c['property_id'] for c in json.load(open('MANIFEST.json'))['checks']))")}
if ! git -C /repo apply "$P" 2>/dev/null; then
  if ! git -C /repo apply --3way "$P" >/dev/null 2>&1; then echo "PATCH DOES NOT APPLY"; git -C /repo checkout -- .; exit 3; fi
  git -C /repo reset -q
fi
hits=""
for p in $PROPS; do
  out=$(./check $p 2>&1); rc=$?
  if [ $rc -ne 0 ]; then hits="$hits $p(rc=$rc)"; echo "$out" | grep -E "^\s+src/|ANALYSIS-BROKEN|^\s+\(lock" | head -6; fi
done
git -C /repo checkout -- .
echo "DETECTED BY:${hits:- none}"
