// Non-blocking sends that could complete at once are refused with NNG_EAGAIN
// (bus0_sock_send and resp0_ctx_send call nni_aio_start before their fast path).
#include <nng/nng.h>
#include <stdio.h>
int main(void){ int bad=0, rv; nng_init(NULL);
 { nng_socket a,b; nng_bus0_open(&a); nng_bus0_open(&b); nng_listen(a,"inproc://nb1",NULL,0); nng_dial(b,"inproc://nb1",NULL,0); nng_msleep(50);
   rv=nng_send(a,"x",1,NNG_FLAG_NONBLOCK); printf("bus  non-blocking send, peer idle:          %s\n",nng_strerror(rv)); bad+=(rv==NNG_EAGAIN); }
 { nng_socket s,r; nng_msg *m; nng_surveyor0_open(&s); nng_respondent0_open(&r); nng_listen(s,"inproc://nb2",NULL,0); nng_dial(r,"inproc://nb2",NULL,0); nng_msleep(50);
   nng_send(s,"q",1,0); nng_recvmsg(r,&m,0);
   rv=nng_sendmsg(r,m,NNG_FLAG_NONBLOCK); printf("respondent non-blocking send, surveyor idle: %s\n",nng_strerror(rv)); if(rv!=0) nng_msg_free(m); bad+=(rv==NNG_EAGAIN); }
 return bad?1:0; }
