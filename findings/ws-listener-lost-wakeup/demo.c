// ws_http_cb_listener error path removes the ws from l->reply without waking ws_listener_stop
#include <nng/nng.h>
#include <arpa/inet.h>
#include <netinet/in.h>
#include <pthread.h>
#include <stdio.h>
#include <stdlib.h>
#include <string.h>
#include <sys/socket.h>
#include <unistd.h>
static volatile int closed_ok;
static nng_socket s;
static void *closer(void *x){ nng_socket_close(s); closed_ok=1; return NULL; }
int main(void){
  int port = 31000 + (getpid()%20000); char url[64]; nng_init(NULL);
  snprintf(url,sizeof url,"ws://127.0.0.1:%d/x",port);
  nng_pair0_open(&s); if (nng_listen(s,url,NULL,0)!=0){printf("listen failed\n");return 2;}
  int fd=socket(AF_INET,SOCK_STREAM,0); struct sockaddr_in a; memset(&a,0,sizeof a); a.sin_family=AF_INET; a.sin_port=htons(port); a.sin_addr.s_addr=htonl(INADDR_LOOPBACK);
  if (connect(fd,(struct sockaddr*)&a,sizeof a)!=0){perror("connect");return 2;}
  char req[512]; snprintf(req,sizeof req,"GET /x HTTP/1.1\r\nHost: 127.0.0.1:%d\r\nUpgrade: websocket\r\nConnection: Upgrade\r\nSec-WebSocket-Key: dGhlIHNhbXBsZSBub25jZQ==\r\nSec-WebSocket-Version: 13\r\nSec-WebSocket-Protocol: pair.sp.nanomsg.org\r\n\r\n",port);
  write(fd,req,strlen(req));
  struct linger lg={1,0}; setsockopt(fd,SOL_SOCKET,SO_LINGER,&lg,sizeof lg); close(fd);   /* RST */
  nng_msleep(30);
  pthread_t t; pthread_create(&t,NULL,closer,NULL);
  for(int i=0;i<50 && !closed_ok;i++) nng_msleep(100);
  printf(closed_ok? "close returned\n" : "HANG: nng_socket_close did not return within 5s\n"); fflush(stdout); if (!closed_ok && getenv("HOLD")) sleep(600);
  _exit(closed_ok?0:1);
}
