#!/bin/sh
# usage: run_obs.sh <checkout>   (library already built in <checkout>/_build)
# exit 1: the (pristine) library leaks the PONG frame; exit 0: clean.
# OBS_NOPING=1 ./run_obs.sh <checkout>  is the control run (no PING, clean).
SRC=${1:?usage: run_obs.sh checkout}
HERE=$(cd "$(dirname "$0")" && pwd)
OUT=$(mktemp -d)
trap 'rm -rf "$OUT"' EXIT
cc -g -O1 -Wall -I"$SRC/include" -I"$HERE" -o "$OUT/obs" "$HERE/obs.c" \
    -L"$SRC/_build" -Wl,-rpath,"$SRC/_build" -lnng -lpthread || exit 5
timeout 100 "$OUT/obs"
rc=$?
echo "obs exit status: $rc"
exit $rc
