// Observation (PRISTINE library): a control frame (PONG) that is queued
// behind the CLOSE frame of a WebSocket stream is unlinked from the transmit
// queue when the CLOSE frame has been written, but never released.
//
// Server side: public nng_stream API on ws://127.0.0.1:<ephemeral>.
// Client side: a raw TCP socket speaking just enough RFC 6455.
//
//  1. client connects and upgrades, then stops reading;
//  2. server sends 64 KiB binary frames until one send stays in flight
//     (kernel buffers full);
//  3. client sends a PING: the server queues a PONG behind the stuck frame;
//  4. server calls nng_stream_close(): a CLOSE frame is queued *in front of*
//     the PONG (ws_send_close prepends);
//  5. client starts reading again: the stuck frame goes out, then the CLOSE
//     frame; ws_write_cb's "close frame done" branch empties the queue but
//     only finalizes frames that carry an aio - the PONG does not.
//
// After nng_stream_free / nng_fini the checking allocator reports the PONG
// frame as never released.

#include <arpa/inet.h>
#include <errno.h>
#include <netinet/in.h>
#include <poll.h>
#include <sys/socket.h>

#include <nng/nng.h>

#include "track.h"

#define CHECK(x)                                                            \
	do {                                                                \
		int rv_ = (x);                                              \
		if (rv_ != 0) {                                             \
			fprintf(stderr, "OBS: %s: %s\n", #x,                \
			    nng_strerror(rv_));                             \
			exit(5);                                            \
		}                                                           \
	} while (0)

static int
wait_idle(nng_aio *aio, int ms)
{
	for (int i = 0; i < ms / 10; i++) {
		if (!nng_aio_busy(aio)) {
			return (1);
		}
		nng_msleep(10);
	}
	return (!nng_aio_busy(aio));
}

int
main(void)
{
	nng_init_params      params;
	nng_stream_listener *l;
	nng_stream          *s;
	nng_aio             *aaio, *saio, *raio;
	int                  port = 0;
	int                  fd;
	struct sockaddr_in   sin;
	char                 req[512];
	char                 buf[65536];
	static char          chunk[65536];
	char                 rbuf[1024];
	nng_iov              iov;
	int                  n, got = 0;
	int                  small = 4096;
	int                  frames = 0;
	int                  bad;

	trk_install_crash_handler();
	signal(SIGPIPE, SIG_IGN);

	memset(&params, 0, sizeof(params));
	params.malloc_fn = trk_malloc;
	params.calloc_fn = trk_calloc;
	params.free_fn   = trk_free;
	CHECK(nng_init(&params));

	CHECK(nng_stream_listener_alloc(&l, "ws://127.0.0.1:0/obs"));
	CHECK(nng_stream_listener_listen(l));
	CHECK(nng_stream_listener_get_int(l, NNG_OPT_BOUND_PORT, &port));
	CHECK(nng_aio_alloc(&aaio, NULL, NULL));
	CHECK(nng_aio_alloc(&saio, NULL, NULL));
	CHECK(nng_aio_alloc(&raio, NULL, NULL));
	nng_stream_listener_accept(l, aaio);

	// raw client
	fd = socket(AF_INET, SOCK_STREAM, 0);
	setsockopt(fd, SOL_SOCKET, SO_RCVBUF, &small, sizeof(small));
	memset(&sin, 0, sizeof(sin));
	sin.sin_family      = AF_INET;
	sin.sin_port        = htons((uint16_t) port);
	sin.sin_addr.s_addr = htonl(INADDR_LOOPBACK);
	if (connect(fd, (void *) &sin, sizeof(sin)) != 0) {
		perror("connect");
		exit(5);
	}
	snprintf(req, sizeof(req),
	    "GET /obs HTTP/1.1\r\nHost: 127.0.0.1:%d\r\n"
	    "Upgrade: websocket\r\nConnection: Upgrade\r\n"
	    "Sec-WebSocket-Key: dGhlIHNhbXBsZSBub25jZQ==\r\n"
	    "Sec-WebSocket-Version: 13\r\n\r\n",
	    port);
	if (write(fd, req, strlen(req)) != (ssize_t) strlen(req)) {
		perror("write");
		exit(5);
	}
	// read the 101 response, byte by byte up to the blank line
	while (got < (int) sizeof(buf) - 1) {
		if (read(fd, buf + got, 1) != 1) {
			perror("read");
			exit(5);
		}
		got++;
		buf[got] = 0;
		if ((got >= 4) && (strcmp(buf + got - 4, "\r\n\r\n") == 0)) {
			break;
		}
	}
	if (strncmp(buf, "HTTP/1.1 101", 12) != 0) {
		fprintf(stderr, "OBS: no upgrade: %s\n", buf);
		exit(5);
	}

	nng_aio_wait(aaio);
	CHECK(nng_aio_result(aaio));
	s = nng_aio_get_output(aaio, 0);

	// keep the server reading (so that it sees the PING)
	iov.iov_buf = rbuf;
	iov.iov_len = sizeof(rbuf);
	nng_aio_set_iov(raio, 1, &iov);
	nng_stream_recv(s, raio);

	// (2) fill the pipe
	memset(chunk, 'd', sizeof(chunk));
	for (;;) {
		iov.iov_buf = chunk;
		iov.iov_len = sizeof(chunk);
		nng_aio_set_iov(saio, 1, &iov);
		nng_stream_send(s, saio);
		if (!wait_idle(saio, 500)) {
			break; // this one is stuck in flight
		}
		CHECK(nng_aio_result(saio));
		if (++frames > 2000) {
			fprintf(stderr, "OBS: could not fill the pipe\n");
			exit(5);
		}
	}
	fprintf(stderr, "OBS: %d frames went out, one more is in flight\n",
	    frames);

	// (3) PING, masked (client to server), payload "p"
	// (OBS_NOPING=1 in the environment skips it: control run, clean.)
	if (getenv("OBS_NOPING") == NULL) {
		unsigned char ping[7] = { 0x89, 0x81, 1, 2, 3, 4, 'p' ^ 1 };
		if (write(fd, ping, sizeof(ping)) != sizeof(ping)) {
			perror("write ping");
			exit(5);
		}
	}
	nng_msleep(300);

	// (4) close: CLOSE frame goes in front of the PONG
	nng_stream_close(s);

	// (5) drain
	for (;;) {
		struct pollfd pfd = { .fd = fd, .events = POLLIN };
		if (poll(&pfd, 1, 1500) <= 0) {
			break;
		}
		if ((n = (int) read(fd, buf, sizeof(buf))) <= 0) {
			break;
		}
	}
	close(fd);

	nng_aio_wait(saio);
	fprintf(stderr, "OBS: in-flight send finished: %s\n",
	    nng_strerror(nng_aio_result(saio)));
	nng_aio_wait(raio);

	nng_stream_free(s);
	nng_stream_listener_close(l);
	nng_stream_listener_free(l);
	nng_aio_free(aaio);
	nng_aio_free(saio);
	nng_aio_free(raio);
	nng_fini();

	bad = trk_verdict();
	fprintf(stderr, "OBS: %s\n",
	    bad ? "library did not return everything" : "clean");
	return (bad ? 1 : 0);
}
