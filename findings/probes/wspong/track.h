// Checking allocator for the demos.  Plugged into the library through the
// public nng_init_params hooks (malloc_fn / calloc_fn / free_fn).
//
//  * every block carries a header (magic, size, state) and a trailing red zone;
//  * a freed block is never handed back to the system: it is filled with a
//    poison pattern and kept, so that any later write into it (use after free)
//    is visible at the end, and a second release is seen as such;
//  * free(ptr, size) must name the size the block was allocated with;
//  * at the end (after nng_fini) no block may be live.
//
// One allocation can be made to fail: trk_fail_next(lo, hi) makes the next
// request with lo <= size <= hi return NULL (once).

#ifndef TRACK_H
#define TRACK_H

#include <pthread.h>
#include <signal.h>
#include <stdint.h>
#include <stdio.h>
#include <stdlib.h>
#include <string.h>
#include <unistd.h>

#define TRK_MAGIC 0x54524b4d41474943ull
#define TRK_LIVE 1
#define TRK_FREED 2
#define TRK_RED 16
#define TRK_POISON 0xDE
#define TRK_REDBYTE 0xA5

typedef struct trk_hdr {
	uint64_t        magic;
	size_t          size;
	struct trk_hdr *next;
	int             state;
	int             pad;
} trk_hdr; // 32 bytes: user data stays 16-byte aligned

static pthread_mutex_t trk_lk   = PTHREAD_MUTEX_INITIALIZER;
static trk_hdr        *trk_all  = NULL;
static int             trk_errs = 0; // double free, wrong size, ...
static size_t          trk_fail_lo, trk_fail_hi;
static int             trk_fail_armed = 0;
static int             trk_fail_hits  = 0;

static void __attribute__((unused))
trk_fail_next(size_t lo, size_t hi)
{
	pthread_mutex_lock(&trk_lk);
	trk_fail_lo    = lo;
	trk_fail_hi    = hi;
	trk_fail_armed = 1;
	pthread_mutex_unlock(&trk_lk);
}

static int __attribute__((unused))
trk_fail_count(void)
{
	int n;
	pthread_mutex_lock(&trk_lk);
	n = trk_fail_hits;
	pthread_mutex_unlock(&trk_lk);
	return (n);
}

static void *
trk_get(size_t sz, int zero)
{
	trk_hdr *h;
	uint8_t *p;

	pthread_mutex_lock(&trk_lk);
	if (trk_fail_armed && (sz >= trk_fail_lo) && (sz <= trk_fail_hi)) {
		trk_fail_armed = 0;
		trk_fail_hits++;
		pthread_mutex_unlock(&trk_lk);
		return (NULL);
	}
	pthread_mutex_unlock(&trk_lk);

	if ((h = malloc(sizeof(*h) + sz + TRK_RED)) == NULL) {
		return (NULL);
	}
	p = (uint8_t *) (h + 1);
	memset(p, zero ? 0 : 0xCD, sz);
	memset(p + sz, TRK_REDBYTE, TRK_RED);
	h->magic = TRK_MAGIC;
	h->size  = sz;
	h->state = TRK_LIVE;
	pthread_mutex_lock(&trk_lk);
	h->next = trk_all;
	trk_all = h;
	pthread_mutex_unlock(&trk_lk);
	return (p);
}

static void *
trk_malloc(size_t sz)
{
	return (trk_get(sz, 0));
}

static void *
trk_calloc(size_t n, size_t sz)
{
	return (trk_get(n * sz, 1));
}

static void
trk_free(void *ptr, size_t sz)
{
	trk_hdr *h;

	if (ptr == NULL) {
		return;
	}
	h = ((trk_hdr *) ptr) - 1;
	pthread_mutex_lock(&trk_lk);
	if (h->magic != TRK_MAGIC) {
		fprintf(stderr,
		    "ALLOCATOR: release of %p which is not a block of ours\n",
		    ptr);
		trk_errs++;
	} else if (h->state != TRK_LIVE) {
		fprintf(stderr,
		    "ALLOCATOR: block %p (size %zu) released twice\n", ptr,
		    h->size);
		trk_errs++;
	} else {
		if (h->size != sz) {
			fprintf(stderr,
			    "ALLOCATOR: block %p allocated with size %zu "
			    "released with size %zu\n",
			    ptr, h->size, sz);
			trk_errs++;
		}
		h->state = TRK_FREED;
		memset(ptr, TRK_POISON, h->size);
	}
	pthread_mutex_unlock(&trk_lk);
}

// Final verdict: 0 when everything is fine.
static int
trk_verdict(void)
{
	trk_hdr *h;
	int      bad   = 0;
	size_t   live  = 0;
	size_t   total = 0;

	pthread_mutex_lock(&trk_lk);
	for (h = trk_all; h != NULL; h = h->next) {
		uint8_t *p = (uint8_t *) (h + 1);
		total++;
		for (size_t i = 0; i < TRK_RED; i++) {
			if (p[h->size + i] != TRK_REDBYTE) {
				fprintf(stderr,
				    "ALLOCATOR: write past the end of block "
				    "%p (size %zu)\n",
				    (void *) p, h->size);
				bad++;
				break;
			}
		}
		if (h->state == TRK_LIVE) {
			live++;
			if (live <= 10) {
				fprintf(stderr,
				    "ALLOCATOR: block %p (size %zu) never "
				    "released\n",
				    (void *) p, h->size);
			}
		} else {
			for (size_t i = 0; i < h->size; i++) {
				if (p[i] != TRK_POISON) {
					fprintf(stderr,
					    "ALLOCATOR: block %p (size %zu) "
					    "written at offset %zu after its "
					    "release\n",
					    (void *) p, h->size, i);
					bad++;
					break;
				}
			}
		}
	}
	bad += trk_errs;
	pthread_mutex_unlock(&trk_lk);
	fprintf(stderr, "ALLOCATOR: %zu blocks seen, %zu still live, %d errors\n",
	    total, live, bad);
	return ((bad != 0) || (live != 0));
}

static void
trk_crash(int sig)
{
	static const char m[] = "DEMO: crashed (invalid memory access)\n";
	(void) sig;
	(void) !write(2, m, sizeof(m) - 1);
	_exit(3);
}

static void
trk_install_crash_handler(void)
{
	signal(SIGSEGV, trk_crash);
	signal(SIGBUS, trk_crash);
	signal(SIGABRT, trk_crash);
}

#endif
