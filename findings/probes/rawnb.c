#include <nng/nng.h>
#include <stdio.h>
int main(void){ nng_socket p,x; nng_msg *m; nng_init(NULL); nng_pub0_open(&p); nng_sub0_open_raw(&x);
 nng_listen(p,"inproc://rawnb",NULL,0); nng_dial(x,"inproc://rawnb",NULL,0); nng_msleep(50);
 nng_send(p,"hello",5,0); nng_msleep(100);
 int rv=nng_recvmsg(x,&m,NNG_FLAG_NONBLOCK); printf("raw sub non-blocking recv with a message queued: %s\n",nng_strerror(rv)); if(rv==0)nng_msg_free(m); return rv==0?0:1;}
