// surveyor: a non-blocking receive with a survey outstanding and nothing queued must fail at once (NNG_EAGAIN),
// not wait for the survey to expire
#include <nng/nng.h>
#include <stdio.h>
int main(void) {
	nng_socket s; nng_msg *m; int rv;
	nng_init(NULL);
	nng_surveyor0_open(&s);
	nng_socket_set_ms(s, NNG_OPT_SURVEYOR_SURVEYTIME, 800);
	nng_msg_alloc(&m, 0);
	nng_sendmsg(s, m, 0);
	nng_time t0 = nng_clock();
	rv = nng_recvmsg(s, &m, NNG_FLAG_NONBLOCK);
	nng_time dt = nng_clock() - t0;
	printf("non-blocking recv -> %s after %llu ms\n", nng_strerror(rv), (unsigned long long) dt);
	if (dt > 100 || rv != NNG_EAGAIN) { printf("VIOLATION: the non-blocking receive waited / did not report NNG_EAGAIN\n"); return 1; }
	return 0;
}
