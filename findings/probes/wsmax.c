// websocket transport: NNG_OPT_RECVMAXSZ of the dialing socket must be enforced on the connection it dials
#include <nng/nng.h>
#include <stdio.h>
#include <stdlib.h>
int main(void) {
	nng_socket a, b; nng_msg *m; int rv; nng_listener l; int port; char url[64];
	nng_init(NULL);
	nng_pair0_open(&a); nng_pair0_open(&b);
	nng_socket_set_size(b, NNG_OPT_RECVMAXSZ, 100);
	nng_socket_set_ms(b, NNG_OPT_RECVTIMEO, 1000);
	if (nng_listen(a, "ws://127.0.0.1:0/x", &l, 0) != 0) abort();
	nng_listener_get_int(l, NNG_OPT_BOUND_PORT, &port);
	snprintf(url, sizeof(url), "ws://127.0.0.1:%d/x", port);
	if (nng_dial(b, url, NULL, 0) != 0) abort();
	nng_msleep(100);
	nng_msg_alloc(&m, 1000);
	nng_sendmsg(a, m, 0);
	rv = nng_recvmsg(b, &m, 0);
	if (rv == 0) { printf("dialer with RECVMAXSZ=100 received a message of %zu bytes\n", nng_msg_len(m)); return 1; }
	printf("oversize message refused: %s\n", nng_strerror(rv));
	return 0;
}
