// streamclose.c: an operation submitted on a byte stream after nng_stream_close must complete (NNG_ECLOSED),
// not stay parked.  The aio carries a 700 ms timeout only so that the probe terminates: a result of
// NNG_ETIMEDOUT means the operation sat on the closed connection's queue until the expiry thread rescued it
// (with the default infinite timeout nng_aio_wait would never return).
// usage: streamclose <url>   (tcp://127.0.0.1:PORT or ipc:///path)
#include <nng/nng.h>
#include <stdio.h>
#include <stdlib.h>
#include <string.h>

static void
fatal(const char *what, int rv)
{
	fprintf(stderr, "%s: %s\n", what, nng_strerror(rv));
	exit(2);
}

int
main(int argc, char **argv)
{
	const char          *url = argc > 1 ? argv[1] : "tcp://127.0.0.1:45731";
	nng_stream_listener *l;
	nng_stream_dialer   *d;
	nng_aio             *aa, *da, *io;
	nng_stream          *s1, *s2;
	int                  rv, bad = 0;
	char                 buf[16];
	nng_iov              iov;

	nng_init(NULL);
	if ((rv = nng_stream_listener_alloc(&l, url)) != 0) fatal("listener_alloc", rv);
	if ((rv = nng_stream_listener_listen(l)) != 0) fatal("listen", rv);
	if ((rv = nng_stream_dialer_alloc(&d, url)) != 0) fatal("dialer_alloc", rv);
	nng_aio_alloc(&aa, NULL, NULL);
	nng_aio_alloc(&da, NULL, NULL);
	nng_aio_alloc(&io, NULL, NULL);
	nng_stream_listener_accept(l, aa);
	nng_stream_dialer_dial(d, da);
	nng_aio_wait(aa);
	nng_aio_wait(da);
	if ((rv = nng_aio_result(aa)) != 0) fatal("accept", rv);
	if ((rv = nng_aio_result(da)) != 0) fatal("dial", rv);
	s1 = nng_aio_get_output(aa, 0);
	s2 = nng_aio_get_output(da, 0);

	// use the connection once, so that its descriptor has been registered with the poller (a connection that was
	// never armed is registered by the late arm, and the poller reports the hang-up at once)
	iov.iov_buf = buf;
	iov.iov_len = sizeof(buf);
	nng_aio_set_iov(io, 1, &iov);
	nng_stream_recv(s1, io);
	nng_msleep(50);
	{
		char     out[16] = "0123456789abcdef";
		nng_iov  ov      = { .iov_buf = out, .iov_len = sizeof(out) };
		nng_aio *oa;
		nng_aio_alloc(&oa, NULL, NULL);
		nng_aio_set_iov(oa, 1, &ov);
		nng_stream_send(s2, oa);
		nng_aio_wait(oa);
		nng_aio_free(oa);
	}
	nng_aio_wait(io);
	if ((rv = nng_aio_result(io)) != 0) fatal("first recv", rv);

	nng_stream_close(s1);

	for (int dir = 0; dir < 2; dir++) {
		nng_time t0, t1;
		memset(buf, 'x', sizeof(buf));
		iov.iov_buf = buf;
		iov.iov_len = sizeof(buf);
		nng_aio_set_iov(io, 1, &iov);
		nng_aio_set_timeout(io, 700);
		t0 = nng_clock();
		if (dir == 0) {
			nng_stream_recv(s1, io);
		} else {
			nng_stream_send(s1, io);
		}
		nng_aio_wait(io);
		t1 = nng_clock();
		rv = nng_aio_result(io);
		printf("%s after close: %s after %d ms\n", dir == 0 ? "recv" : "send", nng_strerror(rv), (int) (t1 - t0));
		if (rv == NNG_ETIMEDOUT || (t1 - t0) > 500) {
			bad++;
		}
	}
	nng_stream_free(s1);
	nng_stream_free(s2);
	nng_stream_dialer_free(d);
	nng_stream_listener_free(l);
	nng_aio_free(aa);
	nng_aio_free(da);
	nng_aio_free(io);
	nng_fini();
	if (bad) {
		printf("DEFECT: %d operation(s) stayed parked on the closed connection\n", bad);
		return 1;
	}
	printf("ok\n");
	return 0;
}
