// pristine observation: an HTTP client queues connect requests behind one stream dial (c->aio serves the head of c->aios).
// http_dial_cancel aborts that dial whenever *any* queued request is cancelled or times out; the dial callback then fails the
// head of the queue with the other request's code.  Here request A has no timeout, request B (queued behind it) times out after
// 100 ms: A is completed with "Timed out" although nothing timed out for A.
// The dial is kept pending by a listener whose accept queue is full (backlog 0, never accepted): further SYNs are dropped.
// build: cc httpdialcancel.c -I/repo/include -L/repo/_build -lnng -Wl,-rpath,/repo/_build -o httpdialcancel
// exit 0: A is still pending 400 ms later (or was served); exit 1: A was failed with B's timeout
#include <nng/nng.h>
#include <nng/http.h>
#include <arpa/inet.h>
#include <fcntl.h>
#include <netinet/in.h>
#include <stdio.h>
#include <sys/socket.h>
#include <unistd.h>
int main(void) {
	int lfd = socket(AF_INET, SOCK_STREAM, 0), fill[8];
	struct sockaddr_in sa = { .sin_family = AF_INET, .sin_addr.s_addr = htonl(INADDR_LOOPBACK) };
	socklen_t sl = sizeof(sa); char url[64]; nng_url *u; nng_http_client *c; nng_aio *a, *b;
	if (bind(lfd, (void *) &sa, sizeof(sa)) != 0 || listen(lfd, 0) != 0 || getsockname(lfd, (void *) &sa, &sl) != 0) return 2;
	for (int i = 0; i < 8; i++) {            // fill the accept queue; the surplus stays in SYN_SENT
		fill[i] = socket(AF_INET, SOCK_STREAM | SOCK_NONBLOCK, 0);
		connect(fill[i], (void *) &sa, sizeof(sa));
	}
	usleep(100000);
	if (nng_init(NULL) != 0) return 2;
	snprintf(url, sizeof(url), "http://127.0.0.1:%d/", ntohs(sa.sin_port));
	if (nng_url_parse(&u, url) != 0 || nng_http_client_alloc(&c, u) != 0) return 2;
	nng_aio_alloc(&a, NULL, NULL); nng_aio_alloc(&b, NULL, NULL);
	nng_aio_set_timeout(a, NNG_DURATION_INFINITE);
	nng_aio_set_timeout(b, 100);
	nng_http_client_connect(c, a);           // head: its dial is in flight (and hangs)
	nng_http_client_connect(c, b);           // queued behind it
	nng_aio_wait(b);
	printf("B: %s\n", nng_strerror(nng_aio_result(b)));
	nng_msleep(400);
	int busy = nng_aio_busy(a);
	printf("A (no timeout) 400 ms later: %s\n", busy ? "still pending" : nng_strerror(nng_aio_result(a)));
	int bad = !busy && nng_aio_result(a) == NNG_ETIMEDOUT;
	nng_aio_cancel(a); nng_aio_wait(a);
	nng_aio_free(a); nng_aio_free(b); nng_http_client_free(c); nng_url_free(u);
	for (int i = 0; i < 8; i++) close(fill[i]);
	close(lfd);
	return bad ? 1 : 0;
}
