// nng_listener_close racing with nng_socket_close: sock_shutdown ignores a refused nni_listener_hold and still
// calls nni_listener_close, which gives back a reference it never took
#include <nng/nng.h>
#include <pthread.h>
#include <stdio.h>
#include <stdlib.h>
static nng_listener l; static nng_dialer d; static volatile int go;
static void *cl(void *a) { (void) a; while (!go) ; nng_listener_close(l); nng_dialer_close(d); return NULL; }
int main(int argc, char **argv) {
	int n = argc > 1 ? atoi(argv[1]) : 3000;
	nng_init(NULL);
	for (int i = 0; i < n; i++) {
		nng_socket s; pthread_t t; char url[64];
		snprintf(url, sizeof(url), "inproc://lclose%d", i);
		if (nng_pair0_open(&s) != 0) abort();
		if (nng_listen(s, url, &l, 0) != 0) abort();
		snprintf(url, sizeof(url), "inproc://nobody%d", i);
		if (nng_dial(s, url, &d, NNG_FLAG_NONBLOCK) != 0) abort();
		go = 0;
		pthread_create(&t, NULL, cl, NULL);
		go = 1;
		nng_socket_close(s);
		pthread_join(t, NULL);
	}
	printf("done %d rounds\n", n);
	return 0;
}
