#include <nng/nng.h>
#include <poll.h>
#include <stdio.h>
int main(void){ nng_init(NULL);
   nng_socket q,r; nng_listener l; nng_msg *m; nng_req0_open(&q); nng_rep0_open(&r); nng_listen(r,"inproc://st3",&l,0); nng_dial(q,"inproc://st3",NULL,0); nng_msleep(50);
   nng_send(q,"x",1,0); nng_msleep(50); nng_listener_close(l); nng_msleep(100);
   int fd; nng_socket_get_recv_poll_fd(r,&fd); struct pollfd pf={fd,POLLIN,0}; int rd=poll(&pf,1,0)==1;
   int rv=nng_recvmsg(r,&m,NNG_FLAG_NONBLOCK); if(rv==0) nng_msg_free(m);
   printf("rep after its pipe closed: poll-readable=%d nonblocking-recv=%s\n",rd,nng_strerror(rv)); return (rd&&rv==NNG_EAGAIN)?1:0; }
