// pristine observation: nng_stream_recv on a websocket stream that is already
// closed is parked on the receive queue and nothing completes it (until the
// stream is freed, or the aio times out / is canceled).
#include <nng/nng.h>
#include <stdio.h>
#include <string.h>
int main(void) {
	nng_stream_listener *l; nng_stream_dialer *d; nng_aio *la, *da, *ra;
	int port; char url[64]; char buf[16]; nng_iov iov;
	if (nng_init(NULL) != 0) return 2;
	nng_stream_listener_alloc(&l, "ws://127.0.0.1:0/obs3");
	nng_stream_listener_listen(l);
	nng_stream_listener_get_int(l, NNG_OPT_BOUND_PORT, &port);
	snprintf(url, sizeof(url), "ws://127.0.0.1:%d/obs3", port);
	nng_stream_dialer_alloc(&d, url);
	nng_aio_alloc(&la, NULL, NULL); nng_aio_alloc(&da, NULL, NULL); nng_aio_alloc(&ra, NULL, NULL);
	nng_stream_listener_accept(l, la); nng_stream_dialer_dial(d, da);
	nng_aio_wait(la); nng_aio_wait(da);
	nng_stream *s = nng_aio_get_output(la, 0), *c = nng_aio_get_output(da, 0);
	nng_stream_close(s); // we close our own stream
	nng_msleep(300);
	iov.iov_buf = buf; iov.iov_len = sizeof(buf);
	nng_aio_set_iov(ra, 1, &iov);
	nng_aio_set_timeout(ra, 3000);
	nng_time t0 = nng_clock();
	nng_stream_recv(s, ra);
	nng_aio_wait(ra);
	printf("recv on closed ws stream: %s after %d ms\n", nng_strerror(nng_aio_result(ra)), (int)(nng_clock() - t0));
	int bad = nng_aio_result(ra) == NNG_ETIMEDOUT;
	(void) c;
	return bad;
}
