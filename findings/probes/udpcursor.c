// udpcursor.c: run under valgrind.  Closing a UDP listener that has pipes walks them with nni_id_visit; the cursor must start
// at 0 ("The caller starts the iteration by setting the cursor to 0").  valgrind reports the use of an uninitialised value in
// nni_id_visit (called from udp_ep_close) when it does not.
#include <nng/nng.h>
#include <stdio.h>
int
main(void)
{
	nng_socket a, b;
	nng_init(NULL);
	nng_pub0_open(&a);
	nng_sub0_open(&b);
	if (nng_listen(a, "udp4://127.0.0.1:47611", NULL, 0) != 0) return 2;
	if (nng_dial(b, "udp4://127.0.0.1:47611", NULL, 0) != 0) return 2;
	nng_msleep(100);
	nng_socket_close(a);
	nng_socket_close(b);
	nng_fini();
	printf("done\n");
	return 0;
}
