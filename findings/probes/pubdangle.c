// pubdangle.c: after a successful nng_send_aio on a PUB socket the aio must not keep a pointer to the consumed message
#include <nng/nng.h>
#include <stdio.h>
int main(void){ nng_socket s; nng_aio *aio; nng_msg *m;
  nng_init(NULL); nng_pub0_open(&s); nng_aio_alloc(&aio, NULL, NULL); nng_msg_alloc(&m, 8);
  nng_aio_set_msg(aio, m); nng_socket_send(s, aio); nng_aio_wait(aio);
  printf("result %d, message left on aio: %p\n", nng_aio_result(aio), (void *) nng_aio_get_msg(aio));
  int bad = nng_aio_result(aio) == 0 && nng_aio_get_msg(aio) != NULL;
  nng_aio_free(aio); nng_socket_close(s); nng_fini(); return bad; }
