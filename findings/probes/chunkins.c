#include <nng/nng.h>
#include <stdio.h>
#include <string.h>
int main(void){ nng_msg *m; char ins[40]; nng_init(NULL); memset(ins,'A',40);
 nng_msg_alloc(&m,10); memcpy(nng_msg_body(m),"0123456789",10);
 nng_msg_insert(m,ins,40);
 unsigned char *b=nng_msg_body(m); size_t n=nng_msg_len(m);
 int ok = n==50 && memcmp(b,ins,40)==0 && memcmp(b+40,"0123456789",10)==0;
 printf("len=%zu tail=", n); for(int i=40;i<50;i++) printf("%02x",b[i]); printf(" %s\n", ok?"OK":"BODY LOST");
 return ok?0:1; }
