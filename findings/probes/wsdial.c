// websocket dial: the user's aio is read under the dialer's lock by the HTTP callback and under the connection's lock by the
// cancel function; a cancel that lands while the callback is between its read and its completion completes the aio twice
#include <nng/nng.h>
#include <stdio.h>
#include <stdlib.h>
static int calls; static int results[8];
static void cb(void *arg) { nng_aio *a = *(nng_aio **) arg; if (calls < 8) results[calls] = nng_aio_result(a); calls++; }
int main(void) {
	nng_stream_listener *l; nng_stream_dialer *d; nng_aio *laio, *daio; int port; char url[64];
	nng_init(NULL);
	nng_stream_listener_alloc(&l, "ws://127.0.0.1:0/x");
	if (nng_stream_listener_listen(l) != 0) abort();
	nng_stream_listener_get_int(l, NNG_OPT_BOUND_PORT, &port);
	nng_aio_alloc(&laio, NULL, NULL);
	nng_stream_listener_accept(l, laio);
	snprintf(url, sizeof(url), "ws://127.0.0.1:%d/x", port);
	nng_stream_dialer_alloc(&d, url);
	nng_aio_alloc(&daio, cb, &daio);
	nng_stream_dialer_dial(d, daio);
	nng_msleep(150);                 // the HTTP callback is inside its window now (with the injected delay)
	nng_aio_cancel(daio);
	nng_msleep(1500);
	printf("callback of the dial aio ran %d time(s):", calls);
	for (int i = 0; i < calls && i < 8; i++) printf(" %s;", nng_strerror(results[i]));
	printf("\n");
	return calls == 1 ? 0 : 1;
}
