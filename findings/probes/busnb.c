#include <nng/nng.h>
#include <stdio.h>
int main(void){ nng_socket a,b; int rv; nng_init(NULL); nng_bus0_open(&a); nng_bus0_open(&b);
 nng_listen(a,"inproc://busnb",NULL,0); nng_dial(b,"inproc://busnb",NULL,0); nng_msleep(50);
 rv=nng_send(a,"x",1,NNG_FLAG_NONBLOCK); printf("nonblocking bus send: %d (%s)\n",rv,nng_strerror(rv)); return rv==0?0:1;}
