#include <nng/nng.h>
#include <stdio.h>
int main(void){ nng_socket a; nng_aio *aio; nng_msg *m; nng_init(NULL); nng_bus0_open(&a);
 nng_aio_alloc(&aio,NULL,NULL); nng_aio_set_timeout(aio,0); nng_msg_alloc(&m,4); nng_aio_set_msg(aio,m);
 nng_socket_send(a,aio); nng_aio_wait(aio);
 printf("result=%d msg-on-aio=%p\n", nng_aio_result(aio), (void*)nng_aio_get_msg(aio));
 return nng_aio_get_msg(aio)==m?0:1; }
