// pristine observation (not repaired, see DESIGN §6): nng_aio_cancel / nng_aio_abort on an aio whose operation has already
// completed is documented to have no effect (docs/ref/api/aio.md).  nni_aio_abort finds no cancel function, takes that for
// "not scheduled yet" and stores its code in a_result: the result of the completed operation is rewritten.  A send that
// succeeded (the library owns and has delivered the message) then reads as NNG_ECANCELED, which tells the caller the message
// is still theirs.
// build: cc cancelafterdone.c -I/repo/include -L/repo/_build -lnng -Wl,-rpath,/repo/_build -o cancelafterdone
// exit 0: the result stays 0; exit 1: the completed operation's result was rewritten
#include <nng/nng.h>
#include <stdio.h>
int main(void) {
	nng_socket a, b; nng_aio *aio; nng_msg *m; int r0, r1;
	if (nng_init(NULL) != 0) return 2;
	if (nng_pair0_open(&a) != 0 || nng_pair0_open(&b) != 0) return 2;
	if (nng_listen(a, "inproc://cancelafterdone", NULL, 0) != 0 || nng_dial(b, "inproc://cancelafterdone", NULL, 0) != 0) return 2;
	nng_aio_alloc(&aio, NULL, NULL);
	nng_msg_alloc(&m, 4);
	nng_aio_set_msg(aio, m);
	nng_socket_send(a, aio);
	nng_aio_wait(aio);
	r0 = nng_aio_result(aio);
	nng_aio_cancel(aio);            // the operation is complete: documented to have no effect
	r1 = nng_aio_result(aio);
	printf("result of the completed send: %s; after nng_aio_cancel: %s\n", r0 ? nng_strerror(r0) : "ok", r1 ? nng_strerror(r1) : "ok");
	nng_aio_free(aio); nng_socket_close(a); nng_socket_close(b);
	return (r0 == 0 && r1 != 0) ? 1 : 0;
}
