// Observation (PRISTINE library): PAIR1 (and PAIR0, same code) - a message
// that arrives while the pipe is being torn down is parked on the dead
// pipe's receive aio and never released; the socket is left with
// rd_ready == true and p == NULL, so the next receive dereferences NULL.
//
// pair1_pipe_stop() clears s->p / s->rd_ready under the socket lock and only
// afterwards calls nni_aio_stop(&p->aio_recv).  A receive completion that was
// already dispatched (result 0) runs pair1_pipe_recv_cb() after that locked
// section: no reader waits, the receive queue is "full" (capacity 0 by
// default), so it sets s->rd_ready = true and leaves the message on
// p->aio_recv.  Nobody looks at that aio again (pair1_pipe_fini only
// finalizes it) -> the message leaks.  If the socket stays open (only the
// dialer / pipe was closed), nng_recvmsg() then takes the "rd_ready" branch
// of pair1_sock_recv() with p = s->p = NULL -> invalid access.
//
// usage: obs [iterations] [crash]
//   default: close the receiving socket while a message is in flight; at the
//            end the checking allocator lists the messages never released.
//   crash:   close only the receiver's dialer, then nng_recvmsg(): SIGSEGV.
// A race: a few thousand iterations hit it many times on a busy machine.

#include <nng/nng.h>
#include <pthread.h>

#include "track.h"

static nng_socket   s1, s2;
static volatile int go;

static void *
sender(void *arg)
{
	nng_msg *m;
	(void) arg;
	while (!go) {
	}
	if (nng_msg_alloc(&m, 3000) == 0) {
		if (nng_sendmsg(s1, m, NNG_FLAG_NONBLOCK) != 0) {
			nng_msg_free(m);
		}
	}
	return (NULL);
}

int
main(int argc, char **argv)
{
	nng_init_params params;
	int             iters = argc > 1 ? atoi(argv[1]) : 3000;
	int             crash = argc > 2;
	int             bad;

	memset(&params, 0, sizeof(params));
	params.malloc_fn = trk_malloc;
	params.calloc_fn = trk_calloc;
	params.free_fn   = trk_free;
	trk_install_crash_handler();
	nng_init(&params);
	for (int i = 0; i < iters; i++) {
		pthread_t  t;
		nng_msg   *m;
		nng_dialer d;
		char       url[64];

		snprintf(url, sizeof(url), "inproc://obs-pair-%d", i);
		nng_pair1_open(&s1);
		nng_pair1_open(&s2);
		nng_socket_set_ms(s2, NNG_OPT_RECVTIMEO, 1000);
		nng_socket_set_ms(s1, NNG_OPT_SENDTIMEO, 1000);
		nng_listen(s1, url, NULL, 0);
		nng_dial(s2, url, &d, 0);
		// one ordinary exchange, so the pipe is up
		nng_msg_alloc(&m, 8);
		if (nng_sendmsg(s1, m, 0) != 0) {
			nng_msg_free(m);
		} else if (nng_recvmsg(s2, &m, 0) == 0) {
			nng_msg_free(m);
		}
		// a message on its way while the receiving pipe goes away
		go = 0;
		pthread_create(&t, NULL, sender, NULL);
		go = 1;
		for (volatile int k = 0; k < (i % 50) * 40; k++) {
		}
		if (crash) {
			nng_dialer_close(d);
			pthread_join(t, NULL);
			nng_msleep(2);
			if (nng_recvmsg(s2, &m, NNG_FLAG_NONBLOCK) == 0) {
				nng_msg_free(m);
			}
			nng_socket_close(s2);
		} else {
			nng_socket_close(s2);
			pthread_join(t, NULL);
		}
		nng_socket_close(s1);
	}
	nng_fini();
	bad = trk_verdict();
	fprintf(stderr, "OBS: %s\n",
	    bad ? "library did not return everything" : "clean");
	return (bad ? 1 : 0);
}
