#!/bin/sh
# usage: run_obs.sh <checkout> [crash]   (library built in <checkout>/_build)
# exit 1: messages leaked; exit 3: crashed (crash mode); exit 0: race not hit.
SRC=${1:?usage: run_obs.sh checkout [crash]}
HERE=$(cd "$(dirname "$0")" && pwd)
OUT=$(mktemp -d)
trap 'rm -rf "$OUT"' EXIT
cc -g -O1 -Wall -I"$SRC/include" -I"$HERE" -o "$OUT/obs" "$HERE/obs.c" \
    -L"$SRC/_build" -Wl,-rpath,"$SRC/_build" -lnng -lpthread || exit 5
timeout 110 "$OUT/obs" 3000 $2 >"$OUT/log" 2>&1
rc=$?
tail -4 "$OUT/log"
echo "obs exit status: $rc"
exit $rc
