// sendbufgrow.c: growing NNG_OPT_SENDBUF while a send is blocked on the full buffer must not let a later send overtake
// the blocked one (PAIR: ordered exchange; buffers are FIFO).  usage: sendbufgrow pair0|pair1|push0
#include <nng/nng.h>
#include <stdio.h>
#include <stdlib.h>
#include <string.h>

static int
sendnum(nng_socket s, int n, nng_aio *aio)
{
	nng_msg *m;
	nng_msg_alloc(&m, 0);
	nng_msg_append_u32(m, (uint32_t) n);
	if (aio != NULL) {
		nng_aio_set_msg(aio, m);
		nng_socket_send(s, aio);
		return 0;
	}
	return nng_sendmsg(s, m, 0);
}

int
main(int argc, char **argv)
{
	const char *proto = argc > 1 ? argv[1] : "pair1";
	nng_socket  tx, rx;
	nng_aio    *aio;
	int         bad = 0;
	uint32_t    got[3];
	char        url[64];

	snprintf(url, sizeof(url), "inproc://sendbufgrow-%s", proto);
	nng_init(NULL);
	if (strcmp(proto, "pair0") == 0) {
		nng_pair0_open(&tx);
		nng_pair0_open(&rx);
	} else if (strcmp(proto, "pair1") == 0) {
		nng_pair1_open(&tx);
		nng_pair1_open(&rx);
	} else {
		nng_push0_open(&tx);
		nng_pull0_open(&rx);
	}
	nng_socket_set_int(tx, NNG_OPT_SENDBUF, 1);
	nng_socket_set_ms(rx, NNG_OPT_RECVTIMEO, 1000);
	nng_aio_alloc(&aio, NULL, NULL);

	if (sendnum(tx, 1, NULL) != 0) return 2; // fills the buffer (no peer yet)
	sendnum(tx, 2, aio);                      // blocks behind it
	nng_msleep(100);
	nng_socket_set_int(tx, NNG_OPT_SENDBUF, 4); // room now
	nng_msleep(50);
	if (sendnum(tx, 3, NULL) != 0) return 2; // submitted after 2
	nng_listen(rx, url, NULL, 0);
	nng_dial(tx, url, NULL, 0);
	for (int i = 0; i < 3; i++) {
		nng_msg *m;
		if (nng_recvmsg(rx, &m, 0) != 0) {
			printf("%s: message %d never arrived\n", proto, i + 1);
			return 1;
		}
		nng_msg_trim_u32(m, &got[i]);
		nng_msg_free(m);
	}
	printf("%s: received %u %u %u\n", proto, got[0], got[1], got[2]);
	if (got[0] != 1 || got[1] != 2 || got[2] != 3) {
		printf("DEFECT: a send submitted later overtook the blocked one\n");
		bad = 1;
	}
	nng_aio_wait(aio);
	nng_aio_free(aio);
	nng_socket_close(tx);
	nng_socket_close(rx);
	nng_fini();
	return bad;
}
