#include <stdio.h>
#include <stdint.h>
#include <nng/nng.h>
int main(void){
  nng_msg *m; uint8_t b[8]={0};
  nng_msg_alloc(&m,0);
  nng_msg_header_append(m,b,4);
  int rv = nng_msg_header_append(m,b,SIZE_MAX-3);
  printf("append rv=%d hlen=%zu\n", rv, nng_msg_header_len(m));
  rv = nng_msg_header_insert(m,b,SIZE_MAX-3);
  printf("insert rv=%d hlen=%zu\n", rv, nng_msg_header_len(m));
  return 0;
}
