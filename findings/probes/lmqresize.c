#include <stdio.h>
#include <stdlib.h>
#include <string.h>
#include <nng/nng.h>
#define CHECK(x) do { int rv_ = (x); if (rv_) { fprintf(stderr, "%d: %s: %s\n", __LINE__, #x, nng_strerror(rv_)); exit(2);} } while (0)
int main(void) {
	nng_socket push, pull; char buf[16]; nng_msg *m; int rv;
	CHECK(nng_init(NULL));
	CHECK(nng_push0_open(&push)); CHECK(nng_pull0_open(&pull));
	CHECK(nng_socket_set_int(push, NNG_OPT_SENDBUF, 4));
	CHECK(nng_socket_set_ms(push, NNG_OPT_SENDTIMEO, 1000));
	CHECK(nng_socket_set_ms(pull, NNG_OPT_RECVTIMEO, 1000));
	for (int i = 0; i < 4; i++) { snprintf(buf, sizeof buf, "m%d", i); CHECK(nng_send(push, buf, strlen(buf)+1, 0)); }
	CHECK(nng_socket_set_int(push, NNG_OPT_SENDBUF, 4)); // same size, full
	CHECK(nng_listen(pull, "inproc://rs", NULL, 0));
	CHECK(nng_dial(push, "inproc://rs", NULL, 0));
	nng_msleep(100);
	for (int i = 4; i < 7; i++) { snprintf(buf, sizeof buf, "m%d", i); rv = nng_send(push, buf, strlen(buf)+1, 0); printf("send %s: %s\n", buf, nng_strerror(rv)); }
	for (int i = 0; i < 8; i++) { rv = nng_recvmsg(pull, &m, 0); if (rv) { printf("recv: %s\n", nng_strerror(rv)); break; } printf("recv %s\n", (char*)nng_msg_body(m)); nng_msg_free(m); }
	return 0;
}
