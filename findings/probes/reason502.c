// probe: the reason phrase of 502 (Bad Gateway) -- the status table of nni_http_reason lists BAD_REQUEST twice and BAD_GATEWAY never
#include <nng/nng.h>
#include <nng/http.h>
#include <stdio.h>
#include <string.h>
int main(void) {
	nng_init(NULL);
	nng_url *u; nng_url_parse(&u, "http://127.0.0.1:0");
	nng_http_server *s; nng_http_handler *h; int port;
	nng_http_server_hold(&s, u);
	nng_http_handler_alloc_static(&h, "/x", "hello", 5, "text/plain");
	nng_http_server_add_handler(s, h); nng_http_server_start(s); nng_http_server_get_port(s, &port);
	char us[64]; snprintf(us, sizeof(us), "http://127.0.0.1:%d/x", port);
	nng_url *cu; nng_url_parse(&cu, us);
	nng_http_client *cl; nng_http_client_alloc(&cl, cu);
	nng_aio *aio; nng_aio_alloc(&aio, NULL, NULL);
	nng_http_client_connect(cl, aio); nng_aio_wait(aio);
	nng_http *conn = nng_aio_get_output(aio, 0);
	nng_http_set_status(conn, NNG_HTTP_STATUS_BAD_GATEWAY, NULL);
	const char *r = nng_http_get_reason(conn);
	printf("502 -> \"%s\"\n", r);
	return strcmp(r, "Bad Gateway") != 0;
}
