// pair0/pair1: after the peer goes away, the send descriptor stops polling ready although
// a non-blocking send still succeeds (the send buffer has room).
#include <nng/nng.h>
#include <poll.h>
#include <stdio.h>
#include <stdlib.h>
#include <string.h>
static int ready(int fd) { struct pollfd p = { .fd = fd, .events = POLLIN }; return poll(&p, 1, 0) == 1; }
int main(int argc, char **argv) {
	int v1 = argc > 1 && !strcmp(argv[1], "1");
	nng_socket a, b; int fd, rv, bad = 0;
	nng_init(NULL);
	if (v1) { nng_pair1_open(&a); nng_pair1_open(&b); } else { nng_pair0_open(&a); nng_pair0_open(&b); }
	nng_socket_set_int(a, NNG_OPT_SENDBUF, 4);
	nng_listen(a, "inproc://pairstop", NULL, 0);
	nng_dial(b, "inproc://pairstop", NULL, 0);
	nng_msleep(100);
	nng_socket_get_send_poll_fd(a, &fd);
	printf("connected: send fd ready=%d\n", ready(fd));
	nng_socket_close(b);
	nng_msleep(200);
	int r = ready(fd);
	nng_msg *m; nng_msg_alloc(&m, 3);
	rv = nng_sendmsg(a, m, NNG_FLAG_NONBLOCK);
	printf("peer gone: send fd ready=%d, non-blocking send -> %s\n", r, nng_strerror(rv));
	if (!r && rv == 0) { printf("MISMATCH: descriptor not ready but the send succeeded\n"); bad = 1; }
	return bad;
}
