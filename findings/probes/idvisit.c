// idvisit.c: "Entries may be safely removed from map while iterating" (docs/ref/api/id_map.md).
// Fill a map, walk it with nng_id_visit and remove every entry that is visited: every entry must be visited
// exactly once and the map must be empty afterwards.
#include <nng/nng.h>
#include <stdio.h>
#include <stdlib.h>

int
main(int argc, char **argv)
{
	int         n = argc > 1 ? atoi(argv[1]) : 100;
	nng_id_map *m;
	static int  seen[100000];
	uint64_t    id;
	void       *v;
	uint32_t    cursor = 0;
	int         visited = 0, twice = 0, missed = 0;

	nng_init(NULL);
	nng_id_map_alloc(&m, 0, 0, 0);
	for (int i = 1; i <= n; i++) {
		if (nng_id_set(m, (uint64_t) i, &seen[i]) != 0) {
			return 2;
		}
	}
	while (nng_id_visit(m, &id, &v, &cursor)) {
		visited++;
		if (seen[id]++) {
			twice++;
		}
		nng_id_remove(m, id);
	}
	for (int i = 1; i <= n; i++) {
		if (!seen[i]) {
			missed++;
		}
	}
	printf("entries %d visited %d repeated %d never visited %d\n", n, visited, twice, missed);
	nng_id_map_free(m);
	nng_fini();
	if (missed || twice) {
		printf("DEFECT: removal during iteration lost or repeated entries\n");
		return 1;
	}
	printf("ok\n");
	return 0;
}
