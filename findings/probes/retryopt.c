// REQ: NNG_OPT_REQ_RESENDTIME changed while a request is outstanding.  req.c decides with the *current* value of
// ctx->retry whether it owns a clone of the request: disabled at send time (no clone taken) and enabled when the reply
// arrives => the request message, already released by the transport, is freed again.
#include <nng/nng.h>
#include <nng/protocol/reqrep0/req.h>
#include <stdio.h>
int main(void) {
	nng_socket req, rep; nng_msg *m;
	nng_init(NULL);
	nng_req0_open(&req); nng_rep0_open(&rep);
	nng_listen(rep, "inproc://retryopt", NULL, 0);
	nng_dial(req, "inproc://retryopt", NULL, 0);
	nng_socket_set_ms(req, NNG_OPT_REQ_RESENDTIME, NNG_DURATION_INFINITE);
	nng_msg_alloc(&m, 0); nng_msg_append(m, "ping", 5); nng_sendmsg(req, m, 0);
	nng_recvmsg(rep, &m, 0);
	nng_socket_set_ms(req, NNG_OPT_REQ_RESENDTIME, 1000);    // option changed with the request outstanding
	nng_msg_clear(m); nng_msg_append(m, "pong", 5); nng_sendmsg(rep, m, 0);
	if (nng_recvmsg(req, &m, 0) == 0) { printf("reply: %s\n", (char *) nng_msg_body(m)); nng_msg_free(m); }
	nng_socket_close(req); nng_socket_close(rep);
	nng_fini();
	return 0;
}
