// survexpire.c: a receive on a survey must not outlive the survey's deadline, however the aio's own time limit was given
// (here: nng_aio_set_timeout(50) followed by the absolute nng_aio_set_expire(now + 2000), survey time 200 ms; the response is
// sent 600 ms after the survey).  Found by a seeding agent.
#include <stdio.h>
#include <stdlib.h>
#include <string.h>
#include <nng/nng.h>
#define CHECK(x) do { int rv_ = (x); if (rv_) { fprintf(stderr, "%d: %s\n", __LINE__, nng_strerror(rv_)); exit(2);} } while (0)
int main(void)
{
	nng_socket surv, resp; nng_ctx ctx; nng_aio *aio; nng_msg *m;
	CHECK(nng_init(NULL));
	CHECK(nng_surveyor0_open(&surv));
	CHECK(nng_respondent0_open(&resp));
	CHECK(nng_socket_set_ms(surv, NNG_OPT_SURVEYOR_SURVEYTIME, 200));
	CHECK(nng_listen(surv, "inproc://p1", NULL, 0));
	CHECK(nng_dial(resp, "inproc://p1", NULL, 0));
	nng_msleep(100);
	CHECK(nng_ctx_open(&ctx, surv));
	CHECK(nng_aio_alloc(&aio, NULL, NULL));
	CHECK(nng_msg_alloc(&m, 0));
	nng_msg_append(m, "q", 2);
	nng_aio_set_msg(aio, m);
	nng_ctx_send(ctx, aio); nng_aio_wait(aio); CHECK(nng_aio_result(aio));
	nng_time t0 = nng_clock();
	nng_aio_set_timeout(aio, 50);
	nng_aio_set_expire(aio, t0 + 2000);
	nng_ctx_recv(ctx, aio);
	CHECK(nng_recvmsg(resp, &m, 0));
	nng_msleep(600);
	CHECK(nng_sendmsg(resp, m, 0));
	nng_aio_wait(aio);
	printf("recv result %s after %d ms (survey time 200)\n", nng_strerror(nng_aio_result(aio)), (int)(nng_clock()-t0));
	if (nng_aio_result(aio) == 0) { printf("DEFECT: a response was delivered after the survey's deadline\n"); return 1; }
	printf("ok\n");
	return 0;
}
