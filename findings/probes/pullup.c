// Pristine-library observation: nni_msg_pull_up() ignores the result of
// nni_msg_insert(); when the insert has to grow the chunk and the allocation
// fails, the header is cleared anyway and the message is delivered without
// its header bytes.
#include <nng/nng.h>
#include <stdio.h>
#include <stdlib.h>
#include <string.h>
#include <stdint.h>

#define BODY 100
static size_t fail_size; // calloc of exactly this size fails (once armed)
static int    armed, fired;

static void *my_malloc(size_t n) { return malloc(n); }
static void *my_calloc(size_t a, size_t b)
{
	if (armed && (a * b == fail_size)) { armed = 0; fired++; return NULL; }
	return calloc(a, b);
}
static void my_free(void *p, size_t n) { (void) n; free(p); }

int main(void)
{
	nng_init_params prm;
	nng_socket req, rep; nng_msg *m; int rv;
	memset(&prm, 0, sizeof(prm));
	prm.malloc_fn = my_malloc; prm.calloc_fn = my_calloc; prm.free_fn = my_free;
	if ((rv = nng_init(&prm)) != 0) { printf("init %s\n", nng_strerror(rv)); return 2; }
	nng_req0_open_raw(&req); nng_rep0_open_raw(&rep);
	nng_socket_set_int(rep, NNG_OPT_MAXTTL, 15);
	nng_socket_set_ms(rep, NNG_OPT_RECVTIMEO, 2000);
	nng_listen(rep, "inproc://obs", NULL, 0); nng_dial(req, "inproc://obs", NULL, 0);
	nng_msleep(100);
	nng_msg_alloc(&m, BODY);
	uint8_t *b = nng_msg_body(m);
	for (int i = 0; i < BODY; i++) b[i] = (uint8_t)(0x80 | i); // every word looks like a final hop
	for (uint32_t i = 1; i <= 15; i++) nng_msg_header_append_u32(m, i == 15 ? 0x80000000u | i : i); // 60 bytes
	// grow(ch, 0, 60): newsz = cap - headroom = BODY + 32, + 60 headroom
	fail_size = BODY + 32 + 60; armed = 1;
	if ((rv = nng_sendmsg(req, m, 0)) != 0) { printf("send %s\n", nng_strerror(rv)); return 2; }
	if ((rv = nng_recvmsg(rep, &m, 0)) != 0) { printf("recv: %s (fired=%d)\n", nng_strerror(rv), fired); return 0; }
	printf("fired=%d: header %zu bytes, body %zu bytes (sent: 60 byte header, %d byte body)\n", fired, nng_msg_header_len(m), nng_msg_len(m), BODY);
	return (nng_msg_len(m) == BODY && nng_msg_header_len(m) == 64) ? 0 : 1;
}
