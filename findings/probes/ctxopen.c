#include <nng/nng.h>
#include <pthread.h>
#include <semaphore.h>
#include <stdio.h>
#include <stdlib.h>
#include <unistd.h>
#include <time.h>

static sem_t entered, release;
static void cb(nng_pipe p, nng_pipe_ev ev, void *arg) {
    (void)p; (void)arg;
    if (ev == NNG_PIPE_EV_REM_POST) { sem_post(&entered); sem_wait(&release); }
}
static nng_socket s;
static volatile int closed_rv = -99;
static void *closer(void *a) { (void)a; closed_rv = nng_socket_close(s); return NULL; }
int main(void) {
    nng_socket c; nng_ctx ctx; int rv;
    nng_init(NULL); setvbuf(stdout, NULL, _IONBF, 0);
    sem_init(&entered,0,0); sem_init(&release,0,0);
    nng_rep0_open(&s); nng_req0_open(&c);
    nng_pipe_notify(s, NNG_PIPE_EV_ADD_PRE, cb, NULL);
    nng_pipe_notify(s, NNG_PIPE_EV_REM_POST, cb, NULL);
    if ((rv = nng_listen(s, "inproc://probe1", NULL, 0))) { printf("listen %d\n", rv); return 2; }
    if ((rv = nng_dial(c, "inproc://probe1", NULL, 0))) { printf("dial %d\n", rv); return 2; }
    nng_msleep(100);
    pthread_t t; pthread_create(&t, NULL, closer, NULL);
    sem_wait(&entered);
    nng_msleep(100);
    rv = nng_ctx_open(&ctx, s);
    printf("ctx_open during close: %d (%s)\n", rv, nng_strerror(rv));
    sem_post(&release);
    for (int i = 0; i < 50 && closed_rv == -99; i++) nng_msleep(100);
    printf("close rv %d\n", closed_rv);
    if (closed_rv == -99) { printf("HANG\n"); _exit(1); }
    nng_socket_close(c);
    return 0;
}
