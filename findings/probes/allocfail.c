// allocfail.c: fail the Nth allocation (public nng_init_params allocator hooks) during nng_<proto>_open; the call must
// return NNG_ENOMEM (or succeed), never crash.  Also checks that every sized free gets the size that was allocated.
#include <nng/nng.h>
#include <stdio.h>
#include <stdlib.h>
#include <string.h>
#include <signal.h>
#include <setjmp.h>
static long countdown = -1; static long nalloc; static long badsize;
struct hdr { size_t sz; size_t magic; };
static void *my_malloc(size_t n){ nalloc++; if (countdown > 0 && --countdown == 0) return NULL; struct hdr *h = malloc(n + sizeof *h); if(!h) return NULL; h->sz = n; h->magic = 0xfeedface; return h + 1; }
static void *my_calloc(size_t a, size_t b){ void *p = my_malloc(a*b); if (p) memset(p, 0, a*b); return p; }
static void my_free(void *p, size_t n){ if (!p) return; struct hdr *h = ((struct hdr*)p) - 1; if (h->magic != 0xfeedface) { fprintf(stderr, "free of foreign pointer\n"); abort(); } if (h->sz != n) { badsize++; if (badsize < 5) fprintf(stderr, "sized free mismatch: allocated %zu freed as %zu\n", h->sz, n);} h->magic = 0; free(h); }
typedef int (*openfn)(nng_socket *);
static struct { const char *n; openfn f; } P[] = {
 {"sub0", nng_sub0_open}, {"pub0", nng_pub0_open}, {"req0", nng_req0_open}, {"rep0", nng_rep0_open}, {"bus0", nng_bus0_open},
 {"pair0", nng_pair0_open}, {"pair1", nng_pair1_open}, {"push0", nng_push0_open}, {"pull0", nng_pull0_open},
 {"surveyor0", nng_surveyor0_open}, {"respondent0", nng_respondent0_open}, {"req0_raw", nng_req0_open_raw}, {"rep0_raw", nng_rep0_open_raw},
};
int main(int argc, char **argv){
  nng_init_params ip; memset(&ip, 0, sizeof ip); ip.malloc_fn = my_malloc; ip.calloc_fn = my_calloc; ip.free_fn = my_free;
  if (nng_init(&ip) != 0) { printf("init failed\n"); return 2; }
  int only = argc > 1 ? atoi(argv[1]) : -1; long onlyn = argc > 2 ? atol(argv[2]) : -1;
  for (unsigned i = 0; i < sizeof P / sizeof P[0]; i++) {
    if (only >= 0 && (int)i != only) continue;
    for (long n = 1; n < 40; n++) {
      if (onlyn > 0 && n != onlyn) continue;
      nng_socket s; long before = nalloc; countdown = n;
      fprintf(stderr, "%s fail alloc #%ld\n", P[i].n, n); 
      int rv = P[i].f(&s); long used = nalloc - before; int fired = (countdown == 0); countdown = -1;
      if (rv == 0) nng_socket_close(s);
      if (fired && rv != NNG_ENOMEM) printf("%s: allocation #%ld failed but open returned %d (%s)\n", P[i].n, n, rv, nng_strerror(rv));
      if (!fired) break;
      (void) used;
    }
  }
  nng_fini();
  printf("sized-free mismatches: %ld\n", badsize);
  return badsize ? 1 : 0;
}
