// C04 seed "b" demo.
//
// A REP socket serves two peers:
//   A  - a raw REQ peer that sends requests but does not read its replies
//        (so the connection to A backs up and replies to A get queued);
//   B  - an ordinary REQ client.
//
// One REP context C does:
//   recv  R1 (from A)
//   send  reply-1            -> queued behind the backlog of connection A
//   recv  R2 (from B)        <- this is now the request most recently received
//   ...   reply-1 times out (NNG_ETIMEDOUT) while still queued
//   send  reply-2
//
// reply-2 must go to B, carrying R2's request id.  It must never show up on
// connection A.
//
// exit 0: property holds; exit 1: reply-2 was mis-routed.

#include <stdio.h>
#include <stdlib.h>
#include <string.h>

#include <nng/nng.h>

#define CHECK(x)                                                     \
	do {                                                         \
		int rv_ = (x);                                       \
		if (rv_ != 0) {                                      \
			fprintf(stderr, "%s:%d: %s: %s\n", __FILE__, \
			    __LINE__, #x, nng_strerror(rv_));        \
			exit(2);                                     \
		}                                                    \
	} while (0)

#define NHELP 16
#define R1_ID 0x80000aaau

static void
raw_request(nng_socket a, uint32_t id, const char *body)
{
	nng_msg *m;
	CHECK(nng_msg_alloc(&m, 0));
	CHECK(nng_msg_header_append_u32(m, id));
	CHECK(nng_msg_append(m, body, strlen(body) + 1));
	CHECK(nng_sendmsg(a, m, 0));
}

static int
run_once(int round)
{
	nng_socket rep, a, b;
	nng_ctx    c, h[NHELP];
	nng_aio   *haio[NHELP];
	nng_aio   *caio;
	nng_msg   *m;
	char       url[64];
	int        nh      = 0;
	int        blocked = 0;
	int        bad     = 0;
	int        rv;

	snprintf(url, sizeof(url), "inproc://c04b-%d", round);

	CHECK(nng_rep0_open(&rep));
	CHECK(nng_req0_open_raw(&a));
	CHECK(nng_req0_open(&b));
	CHECK(nng_socket_set_ms(rep, NNG_OPT_RECVTIMEO, 2000));
	CHECK(nng_socket_set_ms(rep, NNG_OPT_SENDTIMEO, 2000));
	CHECK(nng_socket_set_int(a, NNG_OPT_RECVBUF, 1));
	CHECK(nng_socket_set_ms(a, NNG_OPT_SENDTIMEO, 2000));
	CHECK(nng_socket_set_ms(b, NNG_OPT_SENDTIMEO, 2000));
	CHECK(nng_socket_set_ms(b, NNG_OPT_RECVTIMEO, 1500));
	CHECK(nng_listen(rep, url, NULL, 0));
	CHECK(nng_dial(a, url, NULL, 0));

	CHECK(nng_ctx_open(&c, rep));
	CHECK(nng_aio_alloc(&caio, NULL, NULL));

	// Step 1: back up the connection to A.  Helper contexts answer A's
	// requests until one of the replies stays queued.
	for (nh = 0; nh < NHELP && !blocked; nh++) {
		CHECK(nng_ctx_open(&h[nh], rep));
		CHECK(nng_aio_alloc(&haio[nh], NULL, NULL));
		raw_request(a, 0x80000100u + (uint32_t) nh, "fill");
		CHECK(nng_ctx_recvmsg(h[nh], &m, 0));
		nng_aio_set_timeout(haio[nh], NNG_DURATION_INFINITE);
		nng_aio_set_msg(haio[nh], m);
		nng_ctx_send(h[nh], haio[nh]);
		nng_msleep(30);
		if (nng_aio_busy(haio[nh])) {
			blocked = 1;
		}
	}
	if (!blocked) {
		fprintf(stderr, "could not back up connection A\n");
		exit(2);
	}

	// Step 2: C receives R1 from A, its reply gets queued (300 ms limit).
	raw_request(a, R1_ID, "R1");
	CHECK(nng_ctx_recvmsg(c, &m, 0));
	if (strcmp(nng_msg_body(m), "R1") != 0) {
		fprintf(stderr, "expected R1\n");
		exit(2);
	}
	nng_msg_clear(m);
	CHECK(nng_msg_append(m, "reply-1", 8));
	nng_aio_set_timeout(caio, NNG_DURATION_INFINITE);
	nng_aio_set_msg(caio, m);
	nng_ctx_send(c, caio);

	raw_request(a, 0x80000bbbu, "R2");
	CHECK(nng_ctx_recvmsg(c, &m, 0));
	nng_msg_free(m);
	{ nng_aio *x; CHECK(nng_aio_alloc(&x, NULL, NULL));
	CHECK(nng_msg_alloc(&m, 0));
	nng_aio_set_timeout(x, 1000);
	nng_aio_set_msg(x, m);
	fprintf(stderr, "second send while first queued...\n");
	nng_ctx_send(c, x);
	nng_aio_wait(x);
	fprintf(stderr, "second send result %s\n", nng_strerror(nng_aio_result(x))); exit(0);}
	// B must get it.
	rv = nng_recvmsg(b, &m, 0);
	if (rv != 0) {
		printf("  B did not get its reply: %s\n", nng_strerror(rv));
		bad = 1;
	} else {
		if (strcmp(nng_msg_body(m), "reply-2") != 0) {
			printf("  B got a wrong reply\n");
			bad = 1;
		}
		nng_msg_free(m);
	}

	// Drain A: reply-2 must not be there.
	CHECK(nng_socket_set_ms(a, NNG_OPT_RECVTIMEO, 300));
	while (nng_recvmsg(a, &m, 0) == 0) {
		if (nng_msg_len(m) == 8 &&
		    strcmp(nng_msg_body(m), "reply-2") == 0) {
			uint32_t id = 0;
			if (nng_msg_header_len(m) >= 4) {
				nng_msg_header_chop_u32(m, &id);
			}
			printf("  reply-2 went to connection A with request "
			       "id %08x (R1 was %08x)\n",
			    id, R1_ID);
			bad = 1;
		}
		nng_msg_free(m);
	}

	nng_aio_wait(caio);
	if (nng_aio_result(caio) != 0) {
		nng_msg_free(nng_aio_get_msg(caio));
	}
	for (int i = 0; i < nh; i++) {
		nng_aio_wait(haio[i]);
		if (nng_aio_result(haio[i]) != 0) {
			nng_msg_free(nng_aio_get_msg(haio[i]));
		}
		nng_aio_free(haio[i]);
		nng_ctx_close(h[i]);
	}
	nng_aio_free(caio);
	nng_ctx_close(c);
	nng_socket_close(a);
	nng_socket_close(b);
	nng_socket_close(rep);
	return (bad);
}

int
main(void)
{
	int bad = 0;

	CHECK(nng_init(NULL));
	for (int i = 0; i < 5; i++) {
		bad += run_once(i);
	}
	if (bad) {
		printf("FAIL: the reply to the most recent request went "
		       "elsewhere (%d of 5 rounds)\n",
		    bad);
		return (1);
	}
	printf("PASS: reply-2 reached B only\n");
	return (0);
}
