// pristine observation: an aio whose timeout is NNG_DURATION_DEFAULT takes the timeout of the socket (or context) the
// operation is for.  nni_aio_normalize_timeout stored that value in the aio's own a_timeout, for good: after the first
// operation the aio no longer has "the default" but the first socket's value, and a later operation -- after the socket's
// timeout option was raised, or on another socket -- fires at the old duration, before the configured one.
// build: cc stickydefault.c -I/repo/include -L/repo/_build -lnng -Wl,-rpath,/repo/_build -o stickydefault
// exit 0: the second receive waits for the new RECVTIMEO (400 ms); exit 1: it times out after the old one (50 ms)
#include <nng/nng.h>
#include <stdio.h>
int main(void) {
	nng_socket s; nng_aio *aio; nng_time t0; unsigned long long a, b; int rv;
	if (nng_init(NULL) != 0) return 2;
	if (nng_pair0_open(&s) != 0) return 2;
	nng_aio_alloc(&aio, NULL, NULL);
	nng_aio_set_timeout(aio, NNG_DURATION_DEFAULT);
	nng_socket_set_ms(s, NNG_OPT_RECVTIMEO, 50);
	t0 = nng_clock(); nng_socket_recv(s, aio); nng_aio_wait(aio); a = nng_clock() - t0;
	nng_socket_set_ms(s, NNG_OPT_RECVTIMEO, 400);
	t0 = nng_clock(); nng_socket_recv(s, aio); nng_aio_wait(aio); b = nng_clock() - t0; rv = nng_aio_result(aio);
	printf("RECVTIMEO 50: timed out after %llu ms; RECVTIMEO raised to 400: %s after %llu ms\n", a, nng_strerror(rv), b);
	nng_aio_free(aio); nng_socket_close(s);
	return b >= 350 ? 0 : 1;
}
