// fail the Nth allocation during nng_init: it must return NNG_ENOMEM (or succeed), never crash
#include <nng/nng.h>
#include <stdio.h>
#include <stdlib.h>
#include <string.h>
static long countdown, live;
static void *my_malloc(size_t n) { if (countdown > 0 && --countdown == 0) return NULL; { void *p = malloc(n); if (p) live++; return p; } }
static void *my_calloc(size_t a, size_t b) { if (countdown > 0 && --countdown == 0) return NULL; { void *p = calloc(a, b); if (p) live++; return p; } }
static void my_free(void *p, size_t n) { (void) n; if (p) live--; free(p); }
int main(int argc, char **argv) {
	int n = atoi(argv[1]); nng_init_params ip; int rv;
	memset(&ip, 0, sizeof ip); ip.malloc_fn = my_malloc; ip.calloc_fn = my_calloc; ip.free_fn = my_free;
	countdown = n;
	rv = nng_init(&ip);
	printf("fail allocation %d: nng_init -> %s\n", n, nng_strerror(rv));
	if (rv == 0) nng_fini();
	printf("   allocations outstanding after the failed / finished init: %ld\n", live);
	countdown = 0;
	rv = nng_init(&ip);
	if (rv == 0) { nng_socket s; if (nng_pair0_open(&s) == 0) nng_socket_close(s); nng_fini(); }
	printf("   second nng_init -> %s, outstanding afterwards: %ld\n", nng_strerror(rv), live);
	return (rv != 0 || live != 0);
}
