// probe: pristine behaviours of the HTTP server
#include <arpa/inet.h>
#include <errno.h>
#include <netinet/in.h>
#include <netinet/tcp.h>
#include <poll.h>
#include <stdio.h>
#include <stdlib.h>
#include <string.h>
#include <sys/socket.h>
#include <unistd.h>

#include <nng/http.h>
#include <nng/nng.h>

static int
tcp_connect(int port)
{
	struct sockaddr_in sin;
	int                fd  = socket(AF_INET, SOCK_STREAM, 0);
	int                one = 1;
	memset(&sin, 0, sizeof(sin));
	sin.sin_family      = AF_INET;
	sin.sin_port        = htons(port);
	sin.sin_addr.s_addr = htonl(INADDR_LOOPBACK);
	if (connect(fd, (void *) &sin, sizeof(sin)) != 0) {
		perror("connect");
		exit(2);
	}
	setsockopt(fd, IPPROTO_TCP, TCP_NODELAY, &one, sizeof(one));
	return (fd);
}

static size_t
read_for(int fd, char *buf, size_t max, int ms)
{
	size_t        n = 0;
	struct pollfd p = { .fd = fd, .events = POLLIN };
	while (n < max - 1 && poll(&p, 1, ms) > 0) {
		ssize_t r = read(fd, buf + n, max - 1 - n);
		if (r <= 0)
			break;
		n += r;
	}
	buf[n] = 0;
	return (n);
}

int
main(void)
{
	nng_http_server  *s;
	nng_http_handler *h;
	nng_url          *url;
	int               port;
	char              buf[65536];

	nng_init(NULL);
	nng_url_parse(&url, "http://127.0.0.1:0");
	nng_http_server_hold(&s, url);
	nng_http_handler_alloc_static(&h, "/x", "hello", 5, "text/plain");
	nng_http_server_add_handler(s, h);
	nng_http_handler_alloc_static(&h, "/yy", "world!", 6, "text/plain");
	nng_http_server_add_handler(s, h);
	nng_http_server_start(s);
	nng_http_server_get_port(s, &port);

	// a header line without a colon is not a header line: 400 (or a closed connection), never 200
	int         fd  = tcp_connect(port);
	const char *req = "GET /x HTTP/1.1\r\nHost: a\r\nthis is not a header line\r\n\r\n";
	write(fd, req, strlen(req));
	read_for(fd, buf, sizeof(buf), 500);
	printf("=== bad header line:\n%.60s\n", buf);
	int bad = strncmp(buf, "HTTP/1.1 200", 12) == 0;
	close(fd);
	fd  = tcp_connect(port);
	req = "GET /x\r\nHost: a\r\n\r\n";        // request line without a version
	write(fd, req, strlen(req));
	read_for(fd, buf, sizeof(buf), 500);
	printf("=== bad request line:\n%.60s\n", buf);
	bad |= strncmp(buf, "HTTP/1.1 200", 12) == 0;
	close(fd);
	return (bad);
}
