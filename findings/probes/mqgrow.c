// raw socket: a sender is blocked on the full send queue; NNG_OPT_SENDBUF is then raised.  There is room now: the blocked
// sender must be served, the descriptor polls ready, and a non-blocking send must succeed rather than answer NNG_EAGAIN.
#include <nng/nng.h>
#include <poll.h>
#include <stdio.h>
static int ready(int fd) { struct pollfd p = { .fd = fd, .events = POLLIN }; return poll(&p, 1, 50) == 1; }
static nng_msg *mk(void) { nng_msg *m; nng_msg_alloc(&m, 0); nng_msg_header_append_u32(m, 0x80000001u); return m; }
int main(void) {
	nng_socket s; int fd, rv; nng_aio *a; nng_msg *m;
	nng_init(NULL); nng_req0_open_raw(&s);
	nng_socket_set_int(s, NNG_OPT_SENDBUF, 1);
	nng_socket_get_send_poll_fd(s, &fd);
	nng_sendmsg(s, mk(), 0);                 // fills the queue
	nng_aio_alloc(&a, NULL, NULL); nng_aio_set_msg(a, mk()); nng_aio_set_timeout(a, 5000);
	nng_socket_send(s, a);                      // blocked writer
	nng_msleep(50);
	nng_socket_set_int(s, NNG_OPT_SENDBUF, 8);
	nng_msleep(50);
	int r = ready(fd);
	m = mk(); rv = nng_sendmsg(s, m, NNG_FLAG_NONBLOCK); if (rv != 0) nng_msg_free(m);
	printf("after growing the buffer: blocked sender %s, send fd ready=%d, non-blocking send -> %s\n",
	    nng_aio_busy(a) ? "still blocked" : "completed", r, nng_strerror(rv));
	int bad = (r && rv != 0) || nng_aio_busy(a);
	nng_aio_cancel(a); nng_aio_wait(a); if (nng_aio_result(a) != 0) nng_msg_free(nng_aio_get_msg(a));
	return bad;
}
