// allocfail3.c: sweep "fail the Nth allocation" over a set of API scenarios; each must end in an error or success, never crash.
#include <nng/nng.h>
#include <stdio.h>
#include <stdlib.h>
#include <string.h>
#include <unistd.h>
static long countdown = -1;
static void *my_malloc(size_t n){ if (countdown > 0 && --countdown == 0) return NULL; return malloc(n); }
static void *my_calloc(size_t a, size_t b){ if (countdown > 0 && --countdown == 0) return NULL; return calloc(a, b); }
static void my_free(void *p, size_t n){ (void) n; free(p); }
static int scen; static const char *url;
static int run(void){
  nng_socket a = NNG_SOCKET_INITIALIZER, b = NNG_SOCKET_INITIALIZER; int rv = 0; nng_msg *m = NULL; nng_ctx c; nng_aio *aio = NULL; nng_url *u = NULL;
  switch (scen) {
  case 0: // listen + dial + send/recv
    if ((rv = nng_pair0_open(&a)) != 0) break;
    if ((rv = nng_pair0_open(&b)) != 0) break;
    nng_socket_set_ms(a, NNG_OPT_SENDTIMEO, 200); nng_socket_set_ms(b, NNG_OPT_RECVTIMEO, 200);
    if ((rv = nng_listen(a, url, NULL, 0)) != 0) break;
    if ((rv = nng_dial(b, url, NULL, 0)) != 0) break;
    if ((rv = nng_msg_alloc(&m, 100)) != 0) break;
    if ((rv = nng_sendmsg(a, m, 0)) != 0) { nng_msg_free(m); break; }
    if ((rv = nng_recvmsg(b, &m, 0)) == 0) nng_msg_free(m);
    break;
  case 1: // req/rep with contexts
    if ((rv = nng_req0_open(&a)) != 0) break;
    if ((rv = nng_rep0_open(&b)) != 0) break;
    nng_socket_set_ms(a, NNG_OPT_RECVTIMEO, 200); nng_socket_set_ms(b, NNG_OPT_RECVTIMEO, 200);
    if ((rv = nng_listen(b, url, NULL, 0)) != 0) break;
    if ((rv = nng_dial(a, url, NULL, 0)) != 0) break;
    if ((rv = nng_ctx_open(&c, a)) != 0) break;
    if ((rv = nng_msg_alloc(&m, 10)) != 0) break;
    if ((rv = nng_ctx_sendmsg(c, m, 0)) != 0) { nng_msg_free(m); break; }
    if ((rv = nng_recvmsg(b, &m, 0)) != 0) break;
    if ((rv = nng_sendmsg(b, m, 0)) != 0) { nng_msg_free(m); break; }
    if ((rv = nng_ctx_recvmsg(c, &m, 0)) == 0) nng_msg_free(m);
    break;
  case 2: // pub/sub
    if ((rv = nng_pub0_open(&a)) != 0) break;
    if ((rv = nng_sub0_open(&b)) != 0) break;
    nng_socket_set_ms(b, NNG_OPT_RECVTIMEO, 100);
    if ((rv = nng_sub0_socket_subscribe(b, "ab", 2)) != 0) break;
    if ((rv = nng_listen(a, url, NULL, 0)) != 0) break;
    if ((rv = nng_dial(b, url, NULL, 0)) != 0) break;
    usleep(20000);
    if ((rv = nng_msg_alloc(&m, 0)) != 0) break;
    if ((rv = nng_msg_append(m, "abc", 3)) != 0) { nng_msg_free(m); break; }
    if ((rv = nng_sendmsg(a, m, 0)) != 0) { nng_msg_free(m); break; }
    if ((rv = nng_recvmsg(b, &m, 0)) == 0) nng_msg_free(m);
    break;
  case 3: // message ops
    if ((rv = nng_msg_alloc(&m, 10)) != 0) break;
    if ((rv = nng_msg_append(m, url, strlen(url))) != 0) { nng_msg_free(m); break; }
    if ((rv = nng_msg_insert(m, url, strlen(url))) != 0) { nng_msg_free(m); break; }
    if ((rv = nng_msg_header_append(m, "1234", 4)) != 0) { nng_msg_free(m); break; }
    { nng_msg *d; if ((rv = nng_msg_dup(&d, m)) == 0) nng_msg_free(d); }
    if ((rv = nng_msg_realloc(m, 5000)) != 0) { nng_msg_free(m); break; }
    nng_msg_free(m);
    break;
  case 4: // url + aio + sleep
    if ((rv = nng_url_parse(&u, url)) != 0) break;
    { nng_url *u2; if ((rv = nng_url_clone(&u2, u)) == 0) nng_url_free(u2); }
    nng_url_free(u);
    if ((rv = nng_aio_alloc(&aio, NULL, NULL)) != 0) break;
    nng_sleep_aio(1, aio); nng_aio_wait(aio); nng_aio_free(aio);
    break;
  case 5: // survey
    if ((rv = nng_surveyor0_open(&a)) != 0) break;
    if ((rv = nng_respondent0_open(&b)) != 0) break;
    nng_socket_set_ms(a, NNG_OPT_RECVTIMEO, 100); nng_socket_set_ms(b, NNG_OPT_RECVTIMEO, 100);
    if ((rv = nng_listen(a, url, NULL, 0)) != 0) break;
    if ((rv = nng_dial(b, url, NULL, 0)) != 0) break;
    usleep(20000);
    if ((rv = nng_msg_alloc(&m, 4)) != 0) break;
    if ((rv = nng_sendmsg(a, m, 0)) != 0) { nng_msg_free(m); break; }
    if ((rv = nng_recvmsg(b, &m, 0)) != 0) break;
    if ((rv = nng_sendmsg(b, m, 0)) != 0) { nng_msg_free(m); break; }
    if ((rv = nng_recvmsg(a, &m, 0)) == 0) nng_msg_free(m);
    break;
  case 6: // bus + push/pull raw
    if ((rv = nng_bus0_open(&a)) != 0) break;
    if ((rv = nng_bus0_open_raw(&b)) != 0) break;
    nng_socket_set_ms(b, NNG_OPT_RECVTIMEO, 100);
    if ((rv = nng_listen(a, url, NULL, 0)) != 0) break;
    if ((rv = nng_dial(b, url, NULL, 0)) != 0) break;
    usleep(20000);
    if ((rv = nng_msg_alloc(&m, 4)) != 0) break;
    if ((rv = nng_sendmsg(a, m, 0)) != 0) { nng_msg_free(m); break; }
    if ((rv = nng_recvmsg(b, &m, 0)) == 0) nng_msg_free(m);
    break;
  }
  countdown = -1;
  nng_socket_close(a); nng_socket_close(b);
  return rv;
}
int main(int argc, char **argv){
  nng_init_params ip; memset(&ip, 0, sizeof ip); ip.malloc_fn = my_malloc; ip.calloc_fn = my_calloc; ip.free_fn = my_free;
  scen = atoi(argv[1]); url = argv[2]; long from = argc > 3 ? atol(argv[3]) : 1, to = argc > 4 ? atol(argv[4]) : 400;
  if (nng_init(&ip) != 0) return 2;
  for (long n = from; n <= to; n++) {
    countdown = n;
    fprintf(stderr, "scen=%d n=%ld\n", scen, n);
    int rv = run();
    (void) rv;
  }
  nng_fini();
  printf("done\n");
  return 0;
}
