#define _GNU_SOURCE
#include <arpa/inet.h>
#include <netinet/in.h>
#include <pthread.h>
#include <stdatomic.h>
#include <stdio.h>
#include <stdlib.h>
#include <string.h>
#include <sys/socket.h>
#include <unistd.h>
#include <nng/nng.h>

static int lfd;
static void *acceptor(void *arg) {
	(void) arg;
	for (;;) {
		int fd = accept(lfd, NULL, NULL);
		if (fd < 0) continue;
		// hold silently; close a bit later to limit fds
		static int fds[64]; static int n;
		if (fds[n % 64] > 0) close(fds[n % 64]);
		fds[n % 64] = fd; n++;
	}
	return NULL;
}
static atomic_int done;
static nng_dialer gd;
static void *closer(void *arg) { (void)arg; nng_dialer_close(gd); atomic_store(&done, 1); return NULL; }

int main(int argc, char **argv) {
	int iters = argc > 1 ? atoi(argv[1]) : 3000;
	struct sockaddr_in sin; socklen_t sl = sizeof(sin);
	lfd = socket(AF_INET, SOCK_STREAM, 0);
	memset(&sin, 0, sizeof(sin)); sin.sin_family = AF_INET; sin.sin_addr.s_addr = htonl(INADDR_LOOPBACK);
	bind(lfd, (void *)&sin, sizeof(sin)); listen(lfd, 128); getsockname(lfd, (void *)&sin, &sl);
	pthread_t t; pthread_create(&t, NULL, acceptor, NULL);
	char url[64]; snprintf(url, sizeof(url), "ws://127.0.0.1:%d/x", ntohs(sin.sin_port));
	nng_init(NULL);
	nng_socket s; nng_pair0_open(&s);
	srand(getpid());
	for (int i = 0; i < iters; i++) {
		if (nng_dialer_create(&gd, s, url) != 0) { printf("create fail\n"); return 2; }
		nng_dialer_start(gd, NNG_FLAG_NONBLOCK);
		int us = rand() % 400;
		if (us) usleep(us);
		atomic_store(&done, 0);
		pthread_t c; pthread_create(&c, NULL, closer, NULL);
		for (int k = 0; k < 800 && !atomic_load(&done); k++) usleep(10000);
		if (!atomic_load(&done)) { printf("HANG at iteration %d (delay %d us)\n", i, us); fflush(stdout); _Exit(1); }
		pthread_join(c, NULL);
	}
	printf("no hang in %d iterations\n", iters);
	_Exit(0);
}
