// pristine observation: sfd_listener_close closes the descriptors still queued at a socket:// listener but leaves
// listen_cnt as it was; sfd_listener_stop (nng_stream_listener_stop, the documented step between close and free) calls it again and
// closes the same descriptor numbers a second time -- by then they may belong to somebody else.
// build: cc sfddoubleclose.c -I/repo/include -L/repo/_build -lnng -Wl,-rpath,/repo/_build -o sfddoubleclose
// exit 0: the application's descriptor survives; exit 1: the library closed a descriptor it no longer owned
#include <nng/nng.h>
#include <fcntl.h>
#include <stdio.h>
#include <sys/socket.h>
#include <unistd.h>
int main(void) {
	nng_stream_listener *l; int sv[2];
	if (nng_init(NULL) != 0) return 2;
	if (socketpair(AF_UNIX, SOCK_STREAM, 0, sv) != 0) return 2;
	if (nng_stream_listener_alloc(&l, "socket://") != 0) return 2;
	if (nng_stream_listener_listen(l) != 0) return 2;
	if (nng_stream_listener_set_int(l, NNG_OPT_SOCKET_FD, sv[0]) != 0) return 2; // queued: nobody is accepting
	nng_stream_listener_close(l);                                                // closes sv[0] (the library owns it)
	int mine = dup(sv[1]);                                                       // the application opens a descriptor ...
	printf("library's fd was %d, application's new fd is %d\n", sv[0], mine);
	nng_stream_listener_stop(l);                                                 // ... stop runs close again
	nng_stream_listener_free(l);
	int alive = fcntl(mine, F_GETFD) != -1;
	printf("application's descriptor after nng_stream_listener_stop: %s\n", alive ? "open" : "CLOSED by the library");
	return alive ? 0 : 1;
}
