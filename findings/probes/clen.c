// HTTP server: a Content-Length with trailing junk ("3abc") must be refused (400), not read as 3.
#include <nng/nng.h>
#include <nng/http.h>
#include <arpa/inet.h>
#include <netinet/in.h>
#include <stdio.h>
#include <stdlib.h>
#include <string.h>
#include <sys/socket.h>
#include <unistd.h>
static void handler(nng_http *c, void *arg, nng_aio *aio) {
	void *b; size_t n; char out[64];
	(void) arg;
	nng_http_get_body(c, &b, &n);
	snprintf(out, sizeof(out), "got %zu bytes", n);
	nng_http_copy_body(c, out, strlen(out));
	nng_aio_finish(aio, 0);
}
static int ask(int port, const char *req, char *resp, size_t rsz) {
	int s = socket(AF_INET, SOCK_STREAM, 0);
	struct sockaddr_in a = { .sin_family = AF_INET, .sin_port = htons(port) };
	struct timeval tv = { 2, 0 };
	inet_pton(AF_INET, "127.0.0.1", &a.sin_addr);
	if (connect(s, (void *) &a, sizeof(a)) != 0) return -1;
	setsockopt(s, SOL_SOCKET, SO_RCVTIMEO, &tv, sizeof(tv));
	write(s, req, strlen(req));
	ssize_t n = read(s, resp, rsz - 1);
	resp[n > 0 ? n : 0] = 0;
	close(s);
	return 0;
}
int main(void) {
	nng_http_server *srv; nng_http_handler *h; nng_url *u; int port; char resp[1024];
	nng_init(NULL);
	nng_url_parse(&u, "http://127.0.0.1:0");
	if (nng_http_server_hold(&srv, u) != 0) abort();
	nng_http_handler_alloc(&h, "/x", handler);
	nng_http_handler_set_method(h, "POST");
	nng_http_server_add_handler(srv, h);
	if (nng_http_server_start(srv) != 0) abort();
	nng_http_server_get_port(srv, &port);
	ask(port, "POST /x HTTP/1.1\r\nHost: h\r\nContent-Length: 3\r\n\r\nxyz", resp, sizeof(resp));
	printf("well-formed length : %.15s\n", resp);
	ask(port, "POST /x HTTP/1.1\r\nHost: h\r\nContent-Length: 3abc\r\n\r\nxyz", resp, sizeof(resp));
	printf("malformed \"3abc\"   : %.15s\n", resp);
	int bad = strncmp(resp, "HTTP/1.1 400", 12) != 0;
	if (bad) printf("VIOLATION: a malformed Content-Length was accepted as a number\n");
	return bad;
}
