// udpredial.c: a UDP dialer that lost its pipe must dial again (C14): the peer goes away and comes back on the same
// address; the subscriber's dialer has to reconnect by itself and receive again.
#include <nng/nng.h>
#include <stdio.h>
#include <stdlib.h>
#include <string.h>

int
main(int argc, char **argv)
{
	const char *url = argc > 1 ? argv[1] : "udp4://127.0.0.1:47241";
	nng_socket  pub, sub;
	char        buf[16];
	size_t      len;
	int         got = 0;

	nng_init(NULL);
	nng_pub0_open(&pub);
	if (nng_listen(pub, url, NULL, 0) != 0) return 2;
	nng_sub0_open(&sub);
	nng_sub0_socket_subscribe(sub, "", 0);
	nng_socket_set_ms(sub, NNG_OPT_RECONNMINT, 100);
	nng_socket_set_ms(sub, NNG_OPT_RECONNMAXT, 100);
	nng_socket_set_ms(sub, NNG_OPT_RECVTIMEO, 200);
	if (nng_dial(sub, url, NULL, 0) != 0) return 2;
	nng_msleep(200);
	nng_send(pub, "one", 4, 0);
	len = sizeof(buf);
	if (nng_recv(sub, buf, &len, 0) != 0) { printf("first message not received\n"); return 2; }

	nng_socket_close(pub); // sends DISC to the subscriber: its pipe is closed
	nng_msleep(500);
	nng_pub0_open(&pub);
	if (nng_listen(pub, url, NULL, 0) != 0) return 2;
	for (int i = 0; i < 60 && !got; i++) { // 12 s
		nng_send(pub, "two", 4, 0);
		len = sizeof(buf);
		if (nng_recv(sub, buf, &len, 0) == 0) got = 1;
	}
	printf("dialer %s after the peer came back\n", got ? "reconnected" : "NEVER reconnected (12 s)");
	nng_socket_close(sub);
	nng_socket_close(pub);

	// part 2: a background dialer started before its listener exists; the first attempt expires after 5 s
	// (NNG_OPT_UDP_CONN_EXPIRE), a later one must succeed once the listener is there
	{
		const char *url2 = argc > 2 ? argv[2] : "udp4://127.0.0.1:47242";
		int         got2 = 0;
		nng_sub0_open(&sub);
		nng_sub0_socket_subscribe(sub, "", 0);
		nng_socket_set_ms(sub, NNG_OPT_RECONNMINT, 100);
		nng_socket_set_ms(sub, NNG_OPT_RECONNMAXT, 100);
		nng_socket_set_ms(sub, NNG_OPT_RECVTIMEO, 200);
		if (nng_dial(sub, url2, NULL, NNG_FLAG_NONBLOCK) != 0) return 2;
		nng_msleep(6000);
		nng_pub0_open(&pub);
		if (nng_listen(pub, url2, NULL, 0) != 0) return 2;
		for (int i = 0; i < 60 && !got2; i++) {
			nng_send(pub, "hey", 4, 0);
			len = sizeof(buf);
			if (nng_recv(sub, buf, &len, 0) == 0) got2 = 1;
		}
		printf("early dialer %s once the listener existed\n", got2 ? "connected" : "NEVER connected (12 s)");
		nng_socket_close(sub);
		nng_socket_close(pub);
		if (!got2) got = 0;
	}
	nng_fini();
	if (!got) { printf("DEFECT: the UDP dialer does not dial again\n"); return 1; }
	printf("ok\n");
	return 0;
}
