#include <nng/nng.h>
#include <poll.h>
#include <stdio.h>
#include <string.h>
static int readable(nng_socket s){ int fd; nng_socket_get_recv_poll_fd(s,&fd); struct pollfd p={fd,POLLIN,0}; return poll(&p,1,0)==1; }
static int check(const char *what, nng_socket s){ nng_msg *m; int r=readable(s); int rv=nng_recvmsg(s,&m,NNG_FLAG_NONBLOCK); if(rv==0) nng_msg_free(m);
  printf("%-28s poll-readable=%d nonblocking-recv=%s\n", what, r, nng_strerror(rv)); return (r && rv==NNG_EAGAIN); }
int main(void){ int bad=0; nng_init(NULL);
 { /* sub: unsubscribe purges the queue */
   nng_socket p,s; nng_pub0_open(&p); nng_sub0_open(&s); nng_listen(p,"inproc://st1",NULL,0); nng_dial(s,"inproc://st1",NULL,0);
   nng_sub0_socket_subscribe(s,"a",1); nng_msleep(50); nng_send(p,"a1",2,0); nng_msleep(50);
   nng_sub0_socket_unsubscribe(s,"a",1); bad+=check("sub after unsubscribe:",s); }
 { /* req: new request discards the unread reply */
   nng_socket q,r; nng_msg *m; nng_req0_open(&q); nng_rep0_open(&r); nng_listen(r,"inproc://st2",NULL,0); nng_dial(q,"inproc://st2",NULL,0); nng_msleep(50);
   nng_send(q,"x",1,0); nng_recvmsg(r,&m,0); nng_sendmsg(r,m,0); nng_msleep(50);
   nng_send(q,"y",1,0); /* reply to x unread, now discarded */ 
   int fd; nng_socket_get_recv_poll_fd(q,&fd); struct pollfd pf={fd,POLLIN,0}; int rd=poll(&pf,1,0)==1; 
   int rv=nng_recvmsg(q,&m,NNG_FLAG_NONBLOCK); if (rv==0) nng_msg_free(m);
   printf("%-28s poll-readable=%d nonblocking-recv=%s\n","req after new request:",rd,nng_strerror(rv)); bad+=(rd&&rv==NNG_EAGAIN); }
 { /* rep: requester goes away before the request is read */
   nng_socket q,r; nng_req0_open(&q); nng_rep0_open(&r); nng_listen(r,"inproc://st3",NULL,0); nng_dial(q,"inproc://st3",NULL,0); nng_msleep(50);
   nng_send(q,"x",1,0); nng_msleep(50); nng_socket_close(q); nng_msleep(100); bad+=check("rep after requester left:",r); }
 printf("%d stale descriptors\n",bad); return bad?1:0; }
