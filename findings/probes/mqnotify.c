// mqnotify.c: after growing NNG_OPT_SENDBUF of a raw socket the send descriptor must poll ready when a non-blocking send would succeed
#include <nng/nng.h>
#include <poll.h>
#include <stdio.h>
static int ready(int fd){ struct pollfd p = { .fd = fd, .events = POLLIN }; return poll(&p, 1, 50) == 1; }
int main(void){ nng_socket s; int fd; nng_msg *m;
  nng_init(NULL); nng_req0_open_raw(&s);
  nng_socket_get_send_poll_fd(s, &fd);
  int before = ready(fd);
  nng_socket_set_int(s, NNG_OPT_SENDBUF, 4);
  int after = ready(fd);
  nng_msg_alloc(&m, 0); nng_msg_header_append_u32(m, 0x80000001u);
  int rv = nng_sendmsg(s, m, NNG_FLAG_NONBLOCK); if (rv != 0) nng_msg_free(m);
  printf("send fd ready before resize: %d, after resize: %d, non-blocking send: %s\n", before, after, nng_strerror(rv));
  int bad = (rv == 0 && !after);
  nng_socket_close(s); nng_fini(); return bad; }
