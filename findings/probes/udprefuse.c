// udprefuse.c: a UDP dialer whose connection request is refused (the listener is at udp:max-peers, or could not
// allocate a pipe) must be told: the dial fails, and a background dialer tries again.
//   part 1: background dialer refused while the listener is full; the other peer then leaves -- the dialer must get
//           connected by one of its retries and receive what the publisher sends;
//   part 2: synchronous nng_dial while the listener is full must return (an error), not block for ever.
#include <nng/nng.h>
#include <pthread.h>
#include <stdio.h>
#include <stdlib.h>
#include <string.h>

static const char *url;
static volatile int dial_rv = -1;

static nng_pipe first_pipe;
static int      npipes;

static void
on_pipe(nng_pipe p, nng_pipe_ev ev, void *arg)
{
	(void) arg;
	if (ev == NNG_PIPE_EV_ADD_POST && npipes++ == 0) {
		first_pipe = p;
	}
}

static void *
sync_dial(void *arg)
{
	nng_socket s = *(nng_socket *) arg;
	dial_rv      = nng_dial(s, url, NULL, 0);
	return NULL;
}

int
main(int argc, char **argv)
{
	nng_socket   server, c1, c2, c3;
	nng_listener l;
	nng_dialer   d;
	char         buf[16];
	size_t       len;
	int          bad = 0, got = 0;
	pthread_t    thr;

	url = argc > 1 ? argv[1] : "udp4://127.0.0.1:47231";
	nng_init(NULL);
	nng_pub0_open(&server);
	nng_pipe_notify(server, NNG_PIPE_EV_ADD_POST, on_pipe, NULL);
	nng_listener_create(&l, server, url);
	nng_listener_set_size(l, NNG_OPT_UDP_MAX_PEERS, 1);
	if (nng_listener_start(l, 0) != 0) return 2;

	nng_sub0_open(&c1);
	nng_sub0_socket_subscribe(c1, "", 0);
	if (nng_dial(c1, url, NULL, 0) != 0) return 2;
	nng_msleep(100);

	// part 1
	nng_sub0_open(&c2);
	nng_sub0_socket_subscribe(c2, "", 0);
	nng_socket_set_ms(c2, NNG_OPT_RECONNMINT, 100);
	nng_socket_set_ms(c2, NNG_OPT_RECONNMAXT, 100);
	nng_socket_set_ms(c2, NNG_OPT_RECVTIMEO, 200);
	nng_dialer_create(&d, c2, url);
	nng_dialer_start(d, NNG_FLAG_NONBLOCK);
	nng_msleep(300); // refused by now
	nng_socket_close(c1);
	nng_pipe_close(first_pipe); // the disconnect datagram of a closing socket may be lost: free the slot for sure
	for (int i = 0; i < 60 && !got; i++) { // 12 s: more than the 5 s connection expiry
		nng_send(server, "ok", 3, 0);
		len = sizeof(buf);
		if (nng_recv(c2, buf, &len, 0) == 0) {
			got = 1;
		}
	}
	printf("part 1: refused background dialer %s after the listener had room again\n",
	    got ? "connected" : "NEVER connected (12 s)");
	if (!got) bad++;

	// part 2: c2 (or nobody) occupies the single slot; make sure it is taken
	if (!got) {
		nng_socket_close(c2);
		nng_sub0_open(&c2);
		nng_sub0_socket_subscribe(c2, "", 0);
		if (nng_dial(c2, url, NULL, 0) != 0) return 2;
		nng_msleep(100);
	}
	nng_sub0_open(&c3);
	pthread_create(&thr, NULL, sync_dial, &c3);
	for (int i = 0; i < 100 && dial_rv == -1; i++) {
		nng_msleep(100);
	}
	if (dial_rv == -1) {
		printf("part 2: synchronous nng_dial to a full listener still blocked after 10 s\n");
		bad++;
	} else {
		printf("part 2: synchronous nng_dial to a full listener returned: %s\n", nng_strerror(dial_rv));
	}
	if (bad) {
		printf("DEFECT: a refused UDP dialer is never told\n");
		fflush(stdout);
		_Exit(1); // the blocked dial cannot be joined
	}
	pthread_join(thr, NULL);
	nng_socket_close(c3);
	nng_socket_close(c2);
	nng_socket_close(server);
	nng_fini();
	printf("ok\n");
	return 0;
}
