// devnull.c: nng_device_aio with no first socket and a stale second socket id must fail with an error, not crash.
#include <nng/nng.h>
#include <stdio.h>
int main(void){
  nng_socket none = NNG_SOCKET_INITIALIZER, s2; nng_aio *aio;
  nng_init(NULL);
  nng_pair0_open_raw(&s2); nng_socket_close(s2);           // s2 is now a stale id
  nng_aio_alloc(&aio, NULL, NULL);
  nng_device_aio(aio, none, s2);
  nng_aio_wait(aio);
  printf("result %d (%s)\n", nng_aio_result(aio), nng_strerror(nng_aio_result(aio)));
  nng_aio_free(aio); nng_fini(); return 0;
}
