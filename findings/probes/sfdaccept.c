// pristine observation: a cancel that arrives after an accept on a socket:// stream listener has completed is remembered by
// the aio, and the *next* accept started with that aio fails at once with NNG_ECANCELED -- sfd_listener_accept goes to
// nni_aio_start without nni_aio_reset.  The tcp and ipc listeners (tcp_listener_accept, ipc_listener_accept) clear the aio
// first; the same sequence on tcp:// accepts the second connection.
// build: cc sfdaccept.c -I/repo/include -L/repo/_build -lnng -Wl,-rpath,/repo/_build -o sfdaccept
// exit 0: the second accept is served; exit 1: it reports a cancel aimed at the finished first accept
#include <nng/nng.h>
#include <stdio.h>
#include <sys/socket.h>
#include <unistd.h>
int main(void) {
	nng_stream_listener *l; nng_aio *aio; int sv1[2], sv2[2]; int rv;
	if (nng_init(NULL) != 0) return 2;
	if (socketpair(AF_UNIX, SOCK_STREAM, 0, sv1) != 0 || socketpair(AF_UNIX, SOCK_STREAM, 0, sv2) != 0) return 2;
	if (nng_stream_listener_alloc(&l, "socket://") != 0) return 2;
	if (nng_stream_listener_listen(l) != 0) return 2;
	nng_aio_alloc(&aio, NULL, NULL);
	nng_stream_listener_accept(l, aio);
	nng_stream_listener_set_int(l, NNG_OPT_SOCKET_FD, sv1[0]);
	nng_aio_wait(aio);
	if ((rv = nng_aio_result(aio)) != 0) { printf("first accept: %s\n", nng_strerror(rv)); return 2; }
	nng_stream *s1 = nng_aio_get_output(aio, 0);
	nng_aio_cancel(aio); // too late: the accept completed; must not affect anything
	nng_stream_listener_set_int(l, NNG_OPT_SOCKET_FD, sv2[0]);
	nng_stream_listener_accept(l, aio);
	nng_aio_wait(aio);
	rv = nng_aio_result(aio);
	printf("second accept: %s\n", rv ? nng_strerror(rv) : "ok");
	if (rv == 0) nng_stream_free(nng_aio_get_output(aio, 0));
	nng_stream_free(s1);
	nng_stream_listener_free(l); nng_aio_free(aio);
	close(sv1[1]); close(sv2[1]);
	return rv == 0 ? 0 : 1;
}
