// Closing a REP socket while another thread issues nng_ctx_* calls on one of its contexts.
// nni_ctx_rele wakes the closer before it has finalized the context; the closer frees the
// protocol socket, and the context's finalizer then locks the freed socket's mutex.
#include <nng/nng.h>
#include <pthread.h>
#include <stdio.h>
#include <stdlib.h>
#include <unistd.h>
static nng_ctx ctx;
static volatile int go;
static void *spin(void *arg) {
	(void) arg;
	nng_duration d;
	while (!go) ;
	for (;;) {
		if (nng_ctx_get_ms(ctx, NNG_OPT_RECVTIMEO, &d) != 0) break;
	}
	return NULL;
}
int main(int argc, char **argv) {
	int n = argc > 1 ? atoi(argv[1]) : 2000;
	nng_init(NULL);
	for (int i = 0; i < n; i++) {
		nng_socket s; pthread_t t;
		if (nng_rep0_open(&s) != 0) abort();
		if (nng_ctx_open(&ctx, s) != 0) abort();
		go = 0;
		pthread_create(&t, NULL, spin, NULL);
		go = 1;
		usleep(200);
		nng_socket_close(s);
		pthread_join(t, NULL);
	}
	printf("done %d rounds without a crash\n", n);
	return 0;
}
