#include <nng/nng.h>
#include <stdio.h>
#include <string.h>
#include <stdlib.h>
int main(void){ nng_url *u,*c; int bad=0, rv; nng_init(NULL);
 rv=nng_url_parse(&u,"t://host:1/x"); printf("parse t://host:1/x -> %s%s\n", nng_strerror(rv), rv==0?" (accepted, scheme prefix!)":""); if(rv==0){bad++; nng_url_free(u);} 
 rv=nng_url_parse(&u,"://host:1/x"); printf("parse ://host:1/x  -> %s%s\n", nng_strerror(rv), rv==0?" (accepted, empty scheme!)":""); if(rv==0){bad++; nng_url_free(u);} 
 /* surrogate U+D800 encoded as ED A0 80 must be rejected */
 rv=nng_url_parse(&u,"http://h/%ED%A0%80"); printf("parse surrogate      -> %s%s\n", nng_strerror(rv), rv==0?" (accepted!)":""); if(rv==0){bad++; nng_url_free(u);} 
 /* overlong encoding of '/' (E0 80 AF) must be rejected */
 rv=nng_url_parse(&u,"http://h/%E0%80%AF"); printf("parse overlong       -> %s%s\n", nng_strerror(rv), rv==0?" (accepted!)":""); if(rv==0){bad++; nng_url_free(u);} 
 rv=nng_url_parse(&u,"ipc:///tmp/x"); if (rv==0){ rv=nng_url_clone(&c,u); printf("clone ipc url        -> %s hostname=%p (src %p)\n", nng_strerror(rv), rv==0?(void*)nng_url_hostname(c):NULL, (void*)nng_url_hostname(u)); if(rv==0 && nng_url_hostname(c)!=NULL) bad++; }
 char big[400]; strcpy(big,"http://host/"); memset(big+12,'a',300); big[312]=0;
 rv=nng_url_parse(&u,big); if(rv==0){ rv=nng_url_clone(&c,u); printf("clone long url       -> %s\n", nng_strerror(rv)); if (rv!=0) bad++; }
 printf("%d defects\n",bad); return bad?1:0; }
