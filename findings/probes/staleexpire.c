// pristine observation: an absolute expiry given with nng_aio_set_expire is one-shot -- an operation that ran and completed
// clears it (nni_aio_finish_impl: a_use_expire = false) and the next operation on the aio uses the relative timeout again.
// When nni_aio_start refuses the operation (expiry already passed, stop, latched abort) the mode is left set: every later
// operation on that aio sees the stale absolute time and "times out" at once, long before the configured relative timeout.
// build: cc staleexpire.c -I/repo/include -L/repo/_build -lnng -Wl,-rpath,/repo/_build -o staleexpire
// exit 0: after both kinds of expiry the next receive waits for the relative timeout (200 ms); exit 1: it fails immediately
#include <nng/nng.h>
#include <stdio.h>
static unsigned long long timed_recv(nng_socket s, nng_aio *aio, int *rv) {
	nng_time t0 = nng_clock();
	nng_socket_recv(s, aio); nng_aio_wait(aio); *rv = nng_aio_result(aio);
	return (unsigned long long) (nng_clock() - t0);
}
int main(void) {
	nng_socket s; nng_aio *aio; int rv; unsigned long long a, b;
	if (nng_init(NULL) != 0) return 2;
	if (nng_pair0_open(&s) != 0) return 2;
	nng_aio_alloc(&aio, NULL, NULL);
	nng_aio_set_timeout(aio, 200);               // the configured duration
	// control: a deadline 30 ms ahead; the operation is started, expires, completes
	nng_aio_set_expire(aio, nng_clock() + 30);
	(void) timed_recv(s, aio, &rv);
	a = timed_recv(s, aio, &rv);                 // no new deadline: back to the relative timeout
	printf("after a deadline that expired while the operation ran : next receive %s after %llu ms\n", nng_strerror(rv), a);
	// a deadline that has already passed: nni_aio_start refuses the operation
	nng_aio_set_timeout(aio, 200);
	nng_aio_set_expire(aio, nng_clock() - 1);
	(void) timed_recv(s, aio, &rv);
	b = timed_recv(s, aio, &rv);                 // no new deadline
	printf("after a deadline that had passed before the start    : next receive %s after %llu ms\n", nng_strerror(rv), b);
	nng_aio_free(aio); nng_socket_close(s);
	return (a >= 150 && b >= 150) ? 0 : 1;
}
