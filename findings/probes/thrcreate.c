// pristine observation: nng_thread_create allocates the thread structure, stores it in the caller's out-parameter and then
// returns the error of nni_thr_init without releasing it; the caller, who was told the call failed, has nothing to destroy.
// pthread_create is interposed (the executable's symbol wins over libc's for libnng.so) to fail on demand.
// build: cc thrcreate.c -I/repo/include -L/repo/_build -lnng -lpthread -ldl -Wl,-rpath,/repo/_build -o thrcreate
// exit 0: no growth of the heap over 2000 failed calls; exit 1: the heap grew (the structures are leaked)
#define _GNU_SOURCE
#include <nng/nng.h>
#include <dlfcn.h>
#include <errno.h>
#include <malloc.h>
#include <pthread.h>
#include <stdio.h>
static int fail_now;
int pthread_create(pthread_t *t, const pthread_attr_t *a, void *(*fn)(void *), void *arg) {
	static int (*real)(pthread_t *, const pthread_attr_t *, void *(*)(void *), void *);
	if (fail_now) return EAGAIN;
	if (!real) real = dlsym(RTLD_NEXT, "pthread_create");
	return real(t, a, fn, arg);
}
static void body(void *arg) { (void) arg; }
int main(void) {
	nng_thread *t; int rv = 0, failed = 0;
	if (nng_init(NULL) != 0) return 2;
	if (nng_thread_create(&t, body, NULL) != 0) return 2;   // warm up: one good thread
	nng_thread_destroy(t);
	struct mallinfo2 m0 = mallinfo2();
	fail_now = 1;
	for (int i = 0; i < 2000; i++) {
		if ((rv = nng_thread_create(&t, body, NULL)) != 0) failed++;
		else nng_thread_destroy(t);
	}
	fail_now = 0;
	struct mallinfo2 m1 = mallinfo2();
	long grown = (long) m1.uordblks - (long) m0.uordblks;
	printf("failed calls: %d (last: %s); heap in use grew by %ld bytes\n", failed, nng_strerror(rv), grown);
	return (failed == 2000 && grown > 2000 * 32) ? 1 : 0;
}
