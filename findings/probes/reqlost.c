// REQ with resending disabled: the reply arrives, then the connection goes away before the application reads it.
// The request was answered; the receive must deliver the reply, not NNG_ECONNRESET.
#include <nng/nng.h>
#include <stdio.h>
#include <string.h>
int main(void) {
	nng_socket req, rep; nng_msg *m; int rv;
	nng_init(NULL);
	nng_req0_open(&req); nng_rep0_open(&rep);
	nng_socket_set_ms(req, NNG_OPT_REQ_RESENDTIME, NNG_DURATION_INFINITE);
	nng_socket_set_ms(req, NNG_OPT_RECVTIMEO, 1000);
	nng_listen(rep, "inproc://reqlost", NULL, 0);
	nng_dial(req, "inproc://reqlost", NULL, 0);
	nng_msg_alloc(&m, 0); nng_msg_append(m, "ping", 5); nng_sendmsg(req, m, 0);
	nng_recvmsg(rep, &m, 0); nng_msg_clear(m); nng_msg_append(m, "pong", 5); nng_sendmsg(rep, m, 0);
	nng_msleep(200);              // the reply has reached the requester
	nng_socket_close(rep);         // ... and now the connection is lost
	nng_msleep(200);
	rv = nng_recvmsg(req, &m, 0);
	printf("receive after the reply arrived and the peer went away: %s\n", rv == 0 ? (char *) nng_msg_body(m) : nng_strerror(rv));
	return rv == 0 ? 0 : 1;
}
