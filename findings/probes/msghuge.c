// msghuge.c: absurd sizes must be refused with NNG_ENOMEM, never "succeed" with a length the storage cannot hold.
#include <nng/nng.h>
#include <stdint.h>
#include <stdio.h>

int
main(void)
{
	nng_msg *m;
	int      rv, bad = 0;

	nng_init(NULL);
	rv = nng_msg_alloc(&m, SIZE_MAX - 5);
	printf("nng_msg_alloc(SIZE_MAX-5) = %d", rv);
	if (rv == 0) {
		printf("  len=%zu capacity=%zu", nng_msg_len(m), nng_msg_capacity(m));
		bad++; // not freed: its length is a lie
	}
	printf("\n");
	nng_msg_alloc(&m, 0);
	rv = nng_msg_realloc(m, SIZE_MAX);
	printf("nng_msg_realloc(SIZE_MAX) = %d  len=%zu capacity=%zu\n", rv, nng_msg_len(m), nng_msg_capacity(m));
	if (rv == 0 || nng_msg_len(m) > nng_msg_capacity(m)) bad++;
	nng_msg_alloc(&m, 8);
	rv = nng_msg_reserve(m, SIZE_MAX - 3);
	printf("nng_msg_reserve(SIZE_MAX-3) = %d  capacity=%zu\n", rv, nng_msg_capacity(m));
	if (rv == 0) bad++;
	nng_msg_alloc(&m, 8);
	rv = nng_msg_append(m, NULL, SIZE_MAX - 16);
	printf("nng_msg_append(NULL, SIZE_MAX-16) = %d  len=%zu capacity=%zu\n", rv, nng_msg_len(m), nng_msg_capacity(m));
	if (rv == 0 || nng_msg_len(m) > nng_msg_capacity(m)) bad++;
	if (bad) {
		printf("DEFECT: %d call(s) accepted a size that cannot be stored\n", bad);
		return 1;
	}
	printf("ok\n");
	return 0;
}
