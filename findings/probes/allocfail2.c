// allocfail2.c: fail the Nth allocation during nng_dialer_create / nng_listener_create, then close the socket.
#include <nng/nng.h>
#include <stdio.h>
#include <stdlib.h>
#include <string.h>
static long countdown = -1;
static void *my_malloc(size_t n){ if (countdown > 0 && --countdown == 0) return NULL; return malloc(n); }
static void *my_calloc(size_t a, size_t b){ if (countdown > 0 && --countdown == 0) return NULL; return calloc(a, b); }
static void my_free(void *p, size_t n){ (void) n; free(p); }
int main(int argc, char **argv){
  nng_init_params ip; memset(&ip, 0, sizeof ip); ip.malloc_fn = my_malloc; ip.calloc_fn = my_calloc; ip.free_fn = my_free;
  if (nng_init(&ip) != 0) return 2;
  const char *url = argc > 1 ? argv[1] : "inproc://allocfail2";
  int listener = argc > 2;
  for (long n = 1; n < 60; n++) {
    nng_socket s; nng_dialer d; nng_listener l; int rv;
    if (nng_pair0_open(&s) != 0) return 2;
    countdown = n;
    rv = listener ? nng_listener_create(&l, s, url) : nng_dialer_create(&d, s, url);
    int fired = (countdown == 0); countdown = -1;
    fprintf(stderr, "n=%ld fired=%d rv=%d\n", n, fired, rv);
    nng_socket_close(s);
    if (!fired) break;
  }
  nng_fini();
  printf("done\n");
  return 0;
}
