// parkclose <proto> <send|recv> [rounds]: a blocking send/receive issued while another thread closes the socket.
// The protocol's sock_close completes what is parked, but a submission that arrives just after it is parked for good:
// the operation never completes, and nng_socket_close waits for the reference the blocked caller holds.
#include <nng/nng.h>
#include <pthread.h>
#include <signal.h>
#include <stdio.h>
#include <stdlib.h>
#include <string.h>
#include <unistd.h>
static nng_socket s; static volatile int go; static volatile int round_no; static int do_send; static const char *proto;
static void *op(void *a) {
	nng_msg *m; (void) a;
	if (do_send) nng_msg_alloc(&m, 4);
	while (!go) ;
	if (do_send) { if (nng_sendmsg(s, m, 0) != 0) nng_msg_free(m); }
	else if (nng_recvmsg(s, &m, 0) == 0) nng_msg_free(m);
	return NULL;
}
static void hang(int sig) { (void) sig; printf("HANG %s %s round %d: close and the operation both blocked for 15 s\n", proto, do_send ? "send" : "recv", round_no); fflush(stdout); _exit(1); }
static int open_it(void) {
	if (!strcmp(proto, "pair0")) return nng_pair0_open(&s);
	if (!strcmp(proto, "pair1")) return nng_pair1_open(&s);
	if (!strcmp(proto, "bus0")) return nng_bus0_open(&s);
	if (!strcmp(proto, "push0")) return nng_push0_open(&s);
	if (!strcmp(proto, "pull0")) return nng_pull0_open(&s);
	if (!strcmp(proto, "sub0")) return nng_sub0_open(&s);
	if (!strcmp(proto, "rep0")) return nng_rep0_open(&s);
	if (!strcmp(proto, "respondent0")) return nng_respondent0_open(&s);
	if (!strcmp(proto, "xreq0")) return nng_req0_open_raw(&s);
	return -1;
}
int main(int argc, char **argv) {
	int n = argc > 3 ? atoi(argv[3]) : 40000;
	proto = argv[1]; do_send = !strcmp(argv[2], "send");
	signal(SIGALRM, hang);
	nng_init(NULL);
	for (int i = 0; i < n; i++) {
		pthread_t t;
		round_no = i;
		if (open_it() != 0) abort();
		go = 0;
		pthread_create(&t, NULL, op, NULL);
		alarm(15);
		go = 1;
		for (volatile int k = 0; k < (i % 64) * 20; k++) ;
		nng_socket_close(s);
		pthread_join(t, NULL);
		alarm(0);
	}
	printf("ok %s %s: %d rounds\n", proto, do_send ? "send" : "recv", n);
	return 0;
}
