// Observation probe (pristine library): a UDP listener whose peer goes silent
// either burns CPU until the pipe expires (busy machine) or is never reaped at
// all because the endpoint's timer stops for good (idle machine).
//
// One raw datagram (an SP/UDP CREQ asking for a 1 s refresh) is sent to a
// pair0 listener on udp://127.0.0.1, then nothing more.  The process is idle
// from then on; its CPU time is sampled once a second.
#include <arpa/inet.h>
#include <nng/nng.h>
#include <stdio.h>
#include <stdlib.h>
#include <string.h>
#include <sys/resource.h>
#include <sys/socket.h>
#include <unistd.h>

static volatile int added, removed;
static void
cb(nng_pipe p, nng_pipe_ev ev, void *arg)
{
	(void) p;
	(void) arg;
	if (ev == NNG_PIPE_EV_ADD_POST)
		added++;
	if (ev == NNG_PIPE_EV_REM_POST)
		removed++;
}
static double
cpu(void)
{
	struct rusage r;
	getrusage(RUSAGE_SELF, &r);
	return (r.ru_utime.tv_sec + r.ru_utime.tv_usec / 1e6 +
	    r.ru_stime.tv_sec + r.ru_stime.tv_usec / 1e6);
}
int
main(void)
{
	nng_socket         s;
	nng_listener       l;
	int                port;
	struct sockaddr_in sin = { 0 };
	// ver=1, op=CREQ, type=0x0010 (pair0) LE, recvmax=65000 LE, refresh=1 LE
	unsigned char creq[8] = { 1, 1, 0x10, 0x00, 0xe8, 0xfd, 1, 0 };
	int           fd;
	double        total = 0;

	nng_init(NULL);
	nng_pair0_open(&s);
	nng_pipe_notify(s, NNG_PIPE_EV_ADD_POST, cb, NULL);
	nng_pipe_notify(s, NNG_PIPE_EV_REM_POST, cb, NULL);
	if (nng_listener_create(&l, s, "udp://127.0.0.1:0") ||
	    nng_listener_start(l, 0))
		return (2);
	nng_listener_get_int(l, NNG_OPT_BOUND_PORT, &port);
	fd                  = socket(AF_INET, SOCK_DGRAM, 0);
	sin.sin_family      = AF_INET;
	sin.sin_port        = htons(port);
	sin.sin_addr.s_addr = htonl(INADDR_LOOPBACK);
	sendto(fd, creq, 8, 0, (void *) &sin, sizeof(sin));
	for (int sec = 1; sec <= 30 && !removed; sec++) {
		double c0 = cpu();
		nng_msleep(1000);
		total += cpu() - c0;
		printf("t=%2ds cpu used in this second: %.2fs  (pipes added=%d "
		       "removed=%d)\n",
		    sec, cpu() - c0, added, removed);
	}
	printf("total CPU while idle: %.2fs; pipe %s\n", total,
	    removed ? "reaped" : "NOT reaped after 30 s (expiry is 25 s)");
	// Either symptom is the defect: the timer spins, or it stops for good.
	return ((total > 1.0) || !removed);
}
