// sfdqueue.c: a socket:// listener given several descriptors before anyone accepts must hand each of them out once,
// in order.  Three socketpairs are queued, three accepts follow; a byte written on the peer end of pair k must arrive on
// the k-th accepted connection.
#include <nng/nng.h>
#include <stdio.h>
#include <string.h>
#include <sys/socket.h>
#include <unistd.h>

int
main(void)
{
	nng_stream_listener *l;
	int                  sp[3][2];
	nng_stream          *c[3];
	nng_aio             *aio;
	int                  rv, bad = 0;

	nng_init(NULL);
	if ((rv = nng_stream_listener_alloc(&l, "socket://")) != 0) return 2;
	if ((rv = nng_stream_listener_listen(l)) != 0) return 2;
	for (int k = 0; k < 3; k++) {
		if (socketpair(AF_UNIX, SOCK_STREAM, 0, sp[k]) != 0) return 2;
		if ((rv = nng_stream_listener_set_int(l, NNG_OPT_SOCKET_FD, sp[k][0])) != 0) {
			printf("set fd %d: %s\n", k, nng_strerror(rv));
			return 2;
		}
	}
	nng_aio_alloc(&aio, NULL, NULL);
	for (int k = 0; k < 3; k++) {
		nng_stream_listener_accept(l, aio);
		nng_aio_wait(aio);
		if ((rv = nng_aio_result(aio)) != 0) {
			printf("accept %d: %s\n", k, nng_strerror(rv));
			return 1;
		}
		c[k] = nng_aio_get_output(aio, 0);
	}
	for (int k = 0; k < 3; k++) {
		char    ch = (char) ('A' + k), got = 0;
		nng_iov iov = { .iov_buf = &got, .iov_len = 1 };
		if (write(sp[k][1], &ch, 1) != 1) return 2;
		nng_aio_set_iov(aio, 1, &iov);
		nng_aio_set_timeout(aio, 500);
		nng_stream_recv(c[k], aio);
		nng_aio_wait(aio);
		rv = nng_aio_result(aio);
		printf("connection %d: %s%c\n", k, rv ? nng_strerror(rv) : "received ", rv ? ' ' : got);
		if (rv != 0 || got != ch) bad++;
	}
	if (bad) {
		printf("DEFECT: queued descriptors were not handed out once each, in order\n");
		return 1;
	}
	printf("ok\n");
	return 0;
}
