// urlport.c: a port is a decimal number (or a service name); signs and blanks in front of the digits are not a port.
#include <nng/nng.h>
#include <stdio.h>
int
main(void)
{
	const char *bad[] = { "http://h:+80/", "http://h: 80/", "http://h:-0/", "tcp://h:\t5555", NULL };
	const char *good[] = { "http://h:80/", "tcp://h:0", "tcp://h:65535", NULL };
	int         fails = 0;
	nng_url    *u;
	nng_init(NULL);
	for (int i = 0; bad[i]; i++) {
		int rv = nng_url_parse(&u, bad[i]);
		printf("%-18s -> %s", bad[i], rv == 0 ? "ACCEPTED" : nng_strerror(rv));
		if (rv == 0) { printf(" (port %u)", nng_url_port(u)); nng_url_free(u); fails++; }
		printf("\n");
	}
	for (int i = 0; good[i]; i++) {
		int rv = nng_url_parse(&u, good[i]);
		printf("%-18s -> %s\n", good[i], rv == 0 ? "accepted" : nng_strerror(rv));
		if (rv != 0) fails++; else nng_url_free(u);
	}
	if (fails) { printf("DEFECT: %d URL(s) with a malformed port accepted (or a good one refused)\n", fails); return 1; }
	printf("ok\n");
	return 0;
}
