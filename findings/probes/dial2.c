#include <nng/nng.h>
#include <stdio.h>
#include <stdlib.h>
#include <unistd.h>
static volatile int calls;
static void cb(void *arg){ (void)arg; calls++; }
int main(void){
  nng_socket s, l; nng_dialer d; nng_aio *aio; nng_listener ls;
  nng_init(NULL);
  nng_pair0_open(&l); nng_listen(l, "inproc://x1", &ls, 0);
  nng_pair0_open(&s);
  nng_dialer_create(&d, s, "inproc://x1");
  nng_aio_alloc(&aio, cb, NULL);
  nng_aio_set_timeout(aio, 0);
  nng_dialer_start_aio(d, NNG_FLAG_NONBLOCK, aio);
  nng_msleep(300);
  printf("callback ran %d times, result=%d\n", calls, nng_aio_result(aio));
  return calls == 1 ? 0 : 1;
}
