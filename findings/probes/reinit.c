// two nng_init / nng_fini cycles in one process: after each nng_fini every byte the library allocated must be returned
#include <nng/nng.h>
#include <stdio.h>
#include <stdlib.h>
#include <string.h>
static long live, livebytes;
static void *my_malloc(size_t n) { void *p = malloc(n); if (p) { live++; livebytes += (long) n; } return p; }
static void *my_calloc(size_t a, size_t b) { void *p = my_malloc(a * b); if (p) memset(p, 0, a * b); return p; }
static void my_free(void *p, size_t n) { if (p) { live--; livebytes -= (long) n; free(p); } }
int main(void) {
	int bad = 0;
	for (int cycle = 1; cycle <= 3; cycle++) {
		nng_init_params ip; nng_socket s;
		memset(&ip, 0, sizeof ip); ip.malloc_fn = my_malloc; ip.calloc_fn = my_calloc; ip.free_fn = my_free;
		if (nng_init(&ip) != 0) abort();
		if (nng_pair0_open(&s) != 0) abort();
		nng_listen(s, "inproc://reinit", NULL, 0);
		nng_socket_close(s);
		nng_fini();
		printf("cycle %d: %ld allocations (%ld bytes) not returned after nng_fini\n", cycle, live, livebytes);
		if (live != 0) bad = 1;
	}
	return bad;
}
