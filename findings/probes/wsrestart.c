// wsrestart.c: a listener whose start failed (address in use; equally: out of memory) stays usable: starting it again
// fails again -- or succeeds once the address is free -- and its options can still be read.  It must not crash.
#include <nng/nng.h>
#include <stdio.h>
int
main(void)
{
	nng_socket   a, b;
	nng_listener l1, l2;
	int          rv;
	const char  *url = "ws://127.0.0.1:47621/x";
	nng_init(NULL);
	nng_pair0_open(&a);
	nng_pair0_open(&b);
	if (nng_listener_create(&l1, a, url) != 0 || nng_listener_start(l1, 0) != 0) return 2;
	if (nng_listener_create(&l2, b, url) != 0) return 2;
	rv = nng_listener_start(l2, 0);
	printf("first start of the second listener: %s\n", nng_strerror(rv));
	if (rv == 0) return 2;
	rv = nng_listener_start(l2, 0); // crashes in nni_http_server_add_handler(NULL, ..) on the defective tree
	printf("second start: %s\n", nng_strerror(rv));
	nng_listener_close(l1);
	nng_msleep(100);
	rv = nng_listener_start(l2, 0);
	printf("third start, address free now: %s\n", nng_strerror(rv));
	nng_socket_close(a);
	nng_socket_close(b);
	nng_fini();
	printf("ok\n");
	return 0;
}
