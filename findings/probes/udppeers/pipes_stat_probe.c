#include <stdio.h>
#include <stdlib.h>
#include <string.h>
#include <nng/nng.h>
#include "fault.h"
#define CHECK(e) do { int rv_=(e); if (rv_) { fprintf(stderr,"%d: %s: %s\n",__LINE__,#e,nng_strerror(rv_)); exit(2);} } while(0)

static void dumpstat(const nng_stat *sc, const char *scope, int id, const char *name) {
	if (!sc) { printf("  %s#%d: not found\n", scope, id); return; }
	const nng_stat *st = nng_stat_find(sc, name);
	if (st) printf("  %s#%d.%s = %llu\n", scope, id, name, (unsigned long long) nng_stat_value(st));
}

int main(int argc, char **argv) {
	const char *url = argv[1]; long k = atol(argv[2]);
	nng_init_params params; memset(&params,0,sizeof(params));
	params.malloc_fn=fault_malloc; params.calloc_fn=fault_calloc; params.free_fn=fault_free;
	CHECK(nng_init(&params));
	nng_socket srv, cli; nng_listener l; nng_dialer d; char addr[128];
	CHECK(nng_pair0_open(&srv)); CHECK(nng_pair0_open(&cli));
	CHECK(nng_socket_set_ms(cli, NNG_OPT_RECONNMINT, 10));
	CHECK(nng_socket_set_ms(cli, NNG_OPT_RECONNMAXT, 10));
	CHECK(nng_listener_create(&l, srv, url)); CHECK(nng_listener_start(l,0));
	if (!strncmp(url,"tcp",3) || !strncmp(url, "udp", 3)) { int port; CHECK(nng_listener_get_int(l, NNG_OPT_BOUND_PORT,&port)); snprintf(addr,sizeof(addr),"%.3s://127.0.0.1:%d",url,port);} else snprintf(addr,sizeof(addr),"%s",url);
	CHECK(nng_dialer_create(&d, cli, addr));
	fault_arm(k, 0);
	int rv = nng_dialer_start(d, NNG_FLAG_NONBLOCK);
	nng_msleep(300);
	long cnt = fault_disarm();
	printf("k=%ld start rv=%d count=%ld fired=%d\n", k, rv, cnt, atomic_load(&fault_fired));
	{ char buf[8]; size_t sz=sizeof(buf); nng_socket_set_ms(srv, NNG_OPT_RECVTIMEO, 2000); nng_socket_set_ms(cli, NNG_OPT_SENDTIMEO, 2000);
	  int r1 = nng_send(cli, "hi", 3, 0); int r2 = nng_recv(srv, buf, &sz, 0); printf("  send=%d recv=%d\n", r1, r2); }
	nng_stat *st; CHECK(nng_stats_get(&st));
	dumpstat(nng_stat_find_socket(st, srv), "socket", nng_socket_id(srv), "pipes");
	dumpstat(nng_stat_find_socket(st, cli), "socket", nng_socket_id(cli), "pipes");
	dumpstat(nng_stat_find_listener(st, l), "listener", nng_listener_id(l), "pipes");
	dumpstat(nng_stat_find_dialer(st, d), "dialer", nng_dialer_id(d), "pipes");
	nng_stats_free(st);
	nng_socket_close(cli); nng_socket_close(srv); nng_fini();
	printf("  live after fini: %ld\n", atomic_load(&fault_live));
	return 0;
}
