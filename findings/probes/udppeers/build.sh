#!/bin/sh
# usage: build.sh <checkout>   (library built in <checkout>/_build)
# builds ./pipes_stat_probe and ./ws_dial_hang_probe next to this script
CO=$(cd "${1:?checkout}" && pwd); HERE=$(cd "$(dirname "$0")" && pwd)
for p in pipes_stat_probe ws_dial_hang_probe; do
  cc -O1 -g -I"$CO/include" -I"$HERE" -o "$HERE/$p" "$HERE/$p.c" -L"$CO/_build" -Wl,-rpath,"$CO/_build" -lnng -lpthread || exit 1
done
echo "pipes_stat_probe <url> <k>     e.g. udp://127.0.0.1:0 8   or tcp://127.0.0.1:0 2"
echo "ws_dial_hang_probe <iterations>   (run under timeout(1))"
