// Allocation fault injection and heap checking through the public
// nng_init_params allocator hooks.
//
//  * every block carries a header (size, state); a free of a block that is
//    not live (double free, wild pointer) is reported and the process exits
//    with FAULT_EXIT_BADFREE;
//  * freed blocks are poisoned and never handed out again, so any later use
//    of a freed object reads 0xDD.. garbage instead of plausible stale data;
//  * while "armed", allocations are counted; the fail_at-th one (or the first
//    one of size fail_size) returns NULL exactly once.
#ifndef FAULT_H
#define FAULT_H

#include <stdatomic.h>
#include <stdint.h>
#include <stdio.h>
#include <stdlib.h>
#include <string.h>
#include <unistd.h>

#define FAULT_EXIT_BADFREE 70
#define FAULT_LIVE 0x4c4956454c495645ull
#define FAULT_DEAD 0x4445414444454144ull

typedef struct {
	uint64_t magic;
	size_t   size;
} fault_hdr;

static atomic_int  fault_armed;   // counting + injection on
static atomic_long fault_count;   // allocations seen while armed
static atomic_long fault_fail_at; // 0 = none
static atomic_long fault_fail_sz; // 0 = none
static atomic_int  fault_fired;   // number of injected failures
static atomic_long fault_live;    // live blocks
static atomic_long fault_live_bytes;

static int
fault_should_fail(size_t sz)
{
	if (!atomic_load(&fault_armed)) {
		return (0);
	}
	long n  = atomic_fetch_add(&fault_count, 1) + 1;
	long at = atomic_load(&fault_fail_at);
	long fs = atomic_load(&fault_fail_sz);
	if (((at != 0) && (n == at)) || ((fs != 0) && ((long) sz == fs))) {
		int zero = 0;
		if (atomic_compare_exchange_strong(&fault_fired, &zero, 1)) {
			return (1);
		}
	}
	return (0);
}

static void *
fault_get(size_t sz, int zero)
{
	fault_hdr *h;
	if (fault_should_fail(sz)) {
		return (NULL);
	}
	h = zero ? calloc(1, sz + sizeof(*h)) : malloc(sz + sizeof(*h));
	if (h == NULL) {
		return (NULL);
	}
	h->magic = FAULT_LIVE;
	h->size  = sz;
	atomic_fetch_add(&fault_live, 1);
	atomic_fetch_add(&fault_live_bytes, (long) sz);
	return (h + 1);
}

static void *
fault_malloc(size_t sz)
{
	return (fault_get(sz, 0));
}

static void *
fault_calloc(size_t n, size_t sz)
{
	return (fault_get(n * sz, 1));
}

static void
fault_free(void *p, size_t sz)
{
	fault_hdr *h;
	(void) sz;
	if (p == NULL) {
		return;
	}
	h = ((fault_hdr *) p) - 1;
	if (h->magic != FAULT_LIVE) {
		char        buf[128];
		const char *what =
		    h->magic == FAULT_DEAD ? "DOUBLE FREE" : "WILD FREE";
		int n = snprintf(buf, sizeof(buf),
		    "fault: %s of %p (size argument %zu)\n", what, p, sz);
		if (write(2, buf, (size_t) n) < 0) {
		}
		_exit(FAULT_EXIT_BADFREE);
	}
	h->magic = FAULT_DEAD;
	atomic_fetch_sub(&fault_live, 1);
	atomic_fetch_sub(&fault_live_bytes, (long) h->size);
	memset(p, 0xDD, h->size);
	// quarantined for the life of the (short) process: never reused
}

static void
fault_arm(long fail_at, long fail_sz)
{
	atomic_store(&fault_count, 0);
	atomic_store(&fault_fired, 0);
	atomic_store(&fault_fail_at, fail_at);
	atomic_store(&fault_fail_sz, fail_sz);
	atomic_store(&fault_armed, 1);
}

static long
fault_disarm(void)
{
	atomic_store(&fault_armed, 0);
	return (atomic_load(&fault_count));
}

#endif
