// probe: an HTTP server that answers with an empty chunked body (only the terminating zero chunk) -- legal HTTP --
// makes the nng HTTP client call nni_http_res_alloc_data(res, 0), which stores an uninitialised pointer as the owned body
// and releases it later.  Also: nng_http_copy_body(conn, p, 0).
#include <nng/nng.h>
#include <nng/http.h>
#include <pthread.h>
#include <stdio.h>
#include <stdlib.h>
#include <string.h>
#include <unistd.h>
#include <arpa/inet.h>
#include <sys/socket.h>
static int lfd; static int port;
static void *server(void *arg) {
	(void) arg;
	for (int k = 0; k < 2; k++) {
	int c = accept(lfd, NULL, NULL); char buf[4096]; int n = 0;
	while (n < (int) sizeof(buf) - 1) { int r = read(c, buf + n, sizeof(buf) - 1 - n); if (r <= 0) break; n += r; buf[n] = 0; if (strstr(buf, "\r\n\r\n")) break; }
	const char *rsp = "HTTP/1.1 200 OK\r\nTransfer-Encoding: chunked\r\n\r\n0\r\n\r\n";
	write(c, rsp, strlen(rsp)); usleep(200000); close(c);
	}
	return NULL;
}
int main(int argc, char **argv) {
	nng_init(NULL);
	struct sockaddr_in sa = { .sin_family = AF_INET, .sin_addr.s_addr = htonl(INADDR_LOOPBACK) };
	lfd = socket(AF_INET, SOCK_STREAM, 0); bind(lfd, (void *) &sa, sizeof(sa)); listen(lfd, 4);
	socklen_t sl = sizeof(sa); getsockname(lfd, (void *) &sa, &sl); port = ntohs(sa.sin_port);
	pthread_t t; pthread_create(&t, NULL, server, NULL);
	char us[64]; snprintf(us, sizeof(us), "http://127.0.0.1:%d/x", port);
	nng_url *u; nng_url_parse(&u, us);
	nng_http_client *cl; nng_http_client_alloc(&cl, u);
	nng_aio *aio; nng_aio_alloc(&aio, NULL, NULL);
	nng_http_client_connect(cl, aio); nng_aio_wait(aio);
	if (nng_aio_result(aio)) { printf("connect: %s\n", nng_strerror(nng_aio_result(aio))); return 2; }
	nng_http *conn = nng_aio_get_output(aio, 0);
	if (argc > 1) { // variant 2: copy_body of size 0
		char z; int rv;
		__asm__ volatile("mov $0x12345678, %%r14; mov $0x12345678, %%r15" ::: "r14", "r15"); // the callee-saved register the compiled function happens to read
		rv = nng_http_copy_body(conn, &z, 0);
		printf("copy_body(0) -> %d\n", rv); fflush(stdout);
		rv = nng_http_copy_body(conn, "abc", 3); // releases the previous owned body: the uninitialised pointer
		printf("copy_body(3) -> %d\n", rv);
	} else {
	nng_http_set_uri(conn, "/x", NULL);
	nng_http_transact(conn, aio); nng_aio_wait(aio);
	void *b; size_t sz; nng_http_get_body(conn, &b, &sz);
	printf("transact: %d status %d body %p len %zu\n", nng_aio_result(aio), nng_http_get_status(conn), b, sz);
	}
	nng_http_close(conn);
	nng_aio_free(aio); nng_http_client_free(cl); nng_url_free(u);
	nng_fini();
	printf("done\n");
	return 0;
}
