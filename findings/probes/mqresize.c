// nni_msgq_resize: shrinking across the ring boundary (mq_get > mq_alloc instead of ==)
#include <nng/nng.h>
#include <stdio.h>
#include <string.h>
int main(void){ nng_socket p,x; nng_msg *m; char b[8]; nng_init(NULL); nng_pub0_open(&p); nng_sub0_open_raw(&x);
 nng_socket_set_int(x,NNG_OPT_RECVBUF,4);
 nng_listen(p,"inproc://mqr",NULL,0); nng_dial(x,"inproc://mqr",NULL,0); nng_msleep(50);
 for(int i=0;i<4;i++){ snprintf(b,sizeof b,"a%d",i); nng_send(p,b,3,0);} nng_msleep(50);
 for(int i=0;i<4;i++){ if(nng_recvmsg(x,&m,0)==0) nng_msg_free(m);}      /* get cursor -> 4 of 6 */
 for(int i=0;i<5;i++){ snprintf(b,sizeof b,"b%d",i); nng_send(p,b,3,0);} nng_msleep(50); /* wraps the ring */
 nng_socket_set_int(x,NNG_OPT_RECVBUF,0);                                     /* drop loop crosses the end of the ring */
 int n=0; while(nng_recvmsg(x,&m,NNG_FLAG_NONBLOCK)==0){ printf("got %s\n",(char*)nng_msg_body(m)); nng_msg_free(m); n++; }
 printf("received %d after shrink\n",n); return 0; }
