// udpshrink.c: losing one datagram to an allocation failure is allowed; shrinking the endpoint's receive buffer for good is
// not.  For n = 1..N the n-th allocation after a small message was sent fails; a 1000-byte message sent afterwards on the
// same connection must still arrive.
#include <nng/nng.h>
#include <stdio.h>
#include <stdlib.h>
#include <string.h>
static long  countdown = -1;
static void *my_malloc(size_t n) { if (countdown > 0 && --countdown == 0) return NULL; return malloc(n); }
static void *my_calloc(size_t a, size_t b) { if (countdown > 0 && --countdown == 0) return NULL; return calloc(a, b); }
static void  my_free(void *p, size_t n) { (void) n; free(p); }
int
main(int argc, char **argv)
{
	nng_init_params ip;
	int             N = argc > 1 ? atoi(argv[1]) : 12, bad = 0;
	memset(&ip, 0, sizeof ip);
	ip.malloc_fn = my_malloc; ip.calloc_fn = my_calloc; ip.free_fn = my_free;
	if (nng_init(&ip) != 0) return 2;
	for (int n = 1; n <= N; n++) {
		nng_socket a, b;
		char       url[64], big[1000], buf[2000];
		size_t     len;
		int        rv, got = 0;
		snprintf(url, sizeof url, "udp4://127.0.0.1:%d", 47700 + n);
		nng_pair0_open(&a); nng_pair0_open(&b);
		nng_socket_set_ms(b, NNG_OPT_RECVTIMEO, 300);
		if (nng_listen(b, url, NULL, 0) != 0 || nng_dial(a, url, NULL, 0) != 0) return 2;
		nng_msleep(50);
		nng_send(a, "warm", 5, 0); len = sizeof buf; nng_recv(b, buf, &len, 0);
		countdown = n;                       // the n-th allocation from here on fails
		nng_send(a, "tiny", 5, 0);
		nng_msleep(50);
		countdown = -1;
		len = sizeof buf; (void) nng_recv(b, buf, &len, 0);   // may be lost: allowed
		memset(big, 'B', sizeof big);
		for (int k = 0; k < 3 && !got; k++) {
			rv = nng_send(a, big, sizeof big, 0);
			len = sizeof buf;
			if (rv == 0 && nng_recv(b, buf, &len, 0) == 0 && len == sizeof big) got = 1;
		}
		printf("n=%d: 1000-byte message %s\n", n, got ? "received" : "NEVER received");
		if (!got) bad++;
		nng_socket_close(a); nng_socket_close(b);
	}
	nng_fini();
	if (bad) { printf("DEFECT: %d failure point(s) left the receive buffer shrunk\n", bad); return 1; }
	printf("ok\n");
	return 0;
}
