#include <nng/nng.h>
#include <stdio.h>
#include <stdlib.h>
#include <string.h>
int main(void){
  nng_socket a,b; nng_msg *m; int rv;
  nng_init(NULL);
  nng_pair0_open(&a); nng_pair0_open(&b);
  char url[64]; snprintf(url,sizeof url,"ws://127.0.0.1:%d/x", 30000+(getpid()%20000));
  if ((rv=nng_listen(b,url,NULL,0))!=0){printf("listen %s\n",nng_strerror(rv));return 2;}
  if ((rv=nng_dial(a,url,NULL,0))!=0){printf("dial %s\n",nng_strerror(rv));return 2;}
  nng_msleep(100);
  nng_socket_set_ms(a,NNG_OPT_SENDTIMEO,100);
  int sent=0;
  for(int i=0;i<200;i++){ nng_msg_alloc(&m, 512*1024); memset(nng_msg_body(m), 'x', 512*1024);
    if ((rv=nng_sendmsg(a,m,0))!=0){ nng_msg_free(m); break;} sent++; }
  printf("sent %d before blocking (%s)\n", sent, nng_strerror(rv));
  nng_socket_close(a);   /* the message in flight at the ws transport fails with ECLOSED */
  nng_msleep(200);
  nng_socket_close(b);
  nng_fini();
  return 0;
}
