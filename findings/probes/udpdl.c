// stress: lock-order cycle udp_ep.mtx -> s_mx -> proto.mtx -> udp_ep.mtx
#include <nng/nng.h>
#include <pthread.h>
#include <stdio.h>
#include <stdlib.h>
#include <string.h>
#include <unistd.h>
static nng_socket L;
static volatile unsigned long cA, cB, cC;
static volatile int stop;
static char url[64];
static void *thrA(void *x){ int v=1; while(!stop){ nng_socket_set_int(L, NNG_OPT_RECVBUF, (v++ % 8)+1); cA++; } return NULL; }
static void *thrB(void *x){ while(!stop){ nng_socket s; if (nng_bus0_open(&s)!=0) continue; nng_dial(s,url,NULL,NNG_FLAG_NONBLOCK); nng_msleep(2); nng_send(s,"hi",2,NNG_FLAG_NONBLOCK); nng_msleep(1); nng_socket_close(s); cB++; } return NULL; }
static void *thrC(void *x){ while(!stop){ nng_send(L,"yo",2,NNG_FLAG_NONBLOCK); void *b; size_t n; nng_msg *m; if (nng_recvmsg(L,&m,NNG_FLAG_NONBLOCK)==0) nng_msg_free(m); cC++; } return NULL; }
int main(int argc,char**argv){
  int secs = argc>1?atoi(argv[1]):30;
  nng_init(NULL);
  snprintf(url,sizeof url,"udp://127.0.0.1:%d", 20000+(getpid()%20000));
  nng_bus0_open(&L);
  if (nng_listen(L,url,NULL,0)!=0){printf("listen failed\n");return 2;}
  pthread_t a,b[4],c[2];
  pthread_create(&a,NULL,thrA,NULL);
  for(int i=0;i<4;i++)pthread_create(&b[i],NULL,thrB,NULL);
  for(int i=0;i<2;i++)pthread_create(&c[i],NULL,thrC,NULL);
  unsigned long la=0,lb=0,lc=0; int stall=0;
  for(int t=0;t<secs;t++){ sleep(1);
    if (cA==la || cC==lc) stall++; else stall=0;
    la=cA;lb=cB;lc=cC;
    if (stall>=5){ printf("DEADLOCK: no progress for 5s (setopt=%lu dial=%lu sendrecv=%lu) at t=%d\n",cA,cB,cC,t); fflush(stdout); _exit(1);} }
  printf("no deadlock in %ds (setopt=%lu dial=%lu sendrecv=%lu)\n",secs,cA,cB,cC); fflush(stdout);
  _exit(0);
}
